"""Per-property configuration of the checks: parts (rapid drivers), case counts, shards and wall-clock budgets."""

def part(name, pkg, test, execname, quick, thorough, inproc=False, enumerate=False, fuzz=False):
    """fuzz=True: `test` names a native fuzz target (go test -fuzz, coverage-guided, thorough tier only); its tier entry is
    dict(fuzztime_s=..., budget_s=...) and the executor named by execname replays what it saves."""
    return dict(name=name, pkg=pkg, test=test, exec=execname, inproc=inproc, quick=quick, thorough=thorough, enumerate=enumerate, fuzz=fuzz)

PROPS = {
    "C01": dict(
        level="exploration",
        text="Exploration by generated search on real in-process meshes: topologies, costs (default and per-node override), event histories "
             "(link up/down, silent failure, node stop/restart) and per-link delay schedules are drawn; after the last event every live node's "
             "routing table, next hops, path costs and next-hop walks are compared with an independent Floyd-Warshall oracle on the true live "
             "graph, and must still agree two periods later. Finds counterexamples, proves nothing.",
        note="Trusted: the in-memory Backend/BackendSession implementation of the harness (ordered per direction), the Floyd-Warshall oracle. "
             "Goroutine interleavings inside a node are sampled by the Go scheduler, not enumerated; 'eventually' is a stated deadline.",
        technique="property-based testing (rapid): generated topologies + fault/event histories on real in-process meshes, judged by a Floyd-Warshall oracle",
        assumptions=["links deliver each direction in order (as stream backends do)", "a node is restarted >= 1.2 s after it stopped (epoch granularity)",
                     "goroutine interleavings inside a node are sampled, not enumerated", "convergence deadline 13 s (+ idle limit + 12 s after a silent failure)"],
        parts=[
            part("mesh", "netprops", "TestC01", "C01",
                 quick=dict(checks=96, shards=8, budget_s=420),
                 thorough=dict(checks=800, shards=16, budget_s=3000, shrink="3m")),
        ],
    ),
    "C06": dict(
        level="exploration",
        text="Model-based exploration: one real node between scripted peers receives generated delivery histories (fresh, stale, equal, replayed, "
             "own-origin and suspected-duplicate updates in any order on any link); a reference model built from the statement classifies each delivery and "
             "the node's KnownConnectionCosts snapshot before/after plus every relay seen by every peer are compared with it. Finds counterexamples, proves nothing.",
        note="Trusted: the reference model (newest accepted (epoch,seq) per origin + seen IDs), the scripted peer's wire encoding. The relay interleavings of the "
             "node's independent writer goroutines are sampled.",
        technique="model-based property testing (rapid): delivery histories to one real node between scripted peers, reference model of accepted (epoch,seq)/seen IDs, snapshot-differential oracle",
        assumptions=["replays are verbatim copies of an earlier update (same UpdateID and content)", "periodic floods switched off (route period 1 h) so every relay seen is caused by a delivery",
                     "the suspected-duplicate notice re-bases the origin's epoch as the protocol defines (modelled)"],
        parts=[
            part("model", "netprops", "TestC06", "C06",
                 quick=dict(checks=160, shards=8, budget_s=300),
                 thorough=dict(checks=5000, shards=16, budget_s=3000, shrink="2m")),
        ],
    ),
    "C12": dict(
        level="exploration",
        text="Exploration by generated search: rule lists as YAML delivers them (every key/value type, random key case, literal, "
             "regex-grammar and malformed patterns) and packets over a colliding name alphabet are judged by an independent "
             "first-match reference interpreter; refusal of uninterpretable rule sets is checked in both directions. Finds "
             "counterexamples, proves nothing.",
        note="Trusted: Go's regexp for the meaning of a single pattern; the harness' reference interpreter. Placement (origin / transit / "
             "destination, and the filtering of the reject notice on its way back) is checked on a real three-node chain.",
        technique="property-based testing (rapid): generated rule lists x packets against a reference first-match interpreter",
        assumptions=["regexp semantics of Go's regexp package are shared by reference and implementation; only the anchoring/"
                     "grouping and the parse/refuse decision are independent",
                     "case-colliding duplicate keys in one rule are not generated (map order would make them ambiguous)"],
        parts=[
            part("pure", "netprops", "TestC12Pure", "C12.pure", inproc=True,
                 quick=dict(checks=20000, shards=4, budget_s=240),
                 thorough=dict(checks=1000000, shards=16, budget_s=1800, shrink="2m")),
            part("pure-fuzz", "netprops", "FuzzC12Pure", "C12.pure", inproc=True, fuzz=True,
                 quick=None, thorough=dict(fuzztime_s=240, budget_s=900)),
            part("mesh", "netprops", "TestC12Mesh", "C12.mesh",
                 quick=dict(checks=96, shards=8, budget_s=300),
                 thorough=dict(checks=1600, shards=16, budget_s=3000, shrink="2m")),
        ],
    ),
    "C20": dict(
        level="exploration",
        text="Exploration by generated search: certificate requests over generated name sets (node IDs of every length class incl. > 127 bytes, arbitrary UTF-8, "
             "duplicates, empty list; DNS names; IPv4/IPv6; new or existing key; API or file tooling; validity windows) are issued by receptor's own tooling and "
             "checked by round trip and by receptor's own peer verification in both directions (accepted for every requested ID, refused for neighbouring IDs); "
             "generated and mutated subjectAltName DER is read back and compared with a by-construction expectation / a strict independent reader.",
        note="Trusted: Go's crypto/x509 parser for DNS/IP names, the harness' DER encoder and strict reader. An error from the reader is always acceptable "
             "on non-standard input; a different name never is.",
        technique="property-based testing (rapid): round-trip + metamorphic (neighbouring IDs refused) over generated name sets; grammar-based DER generation with byte mutation against a strict reference reader",
        assumptions=["node IDs are valid UTF-8 (they travel through JSON elsewhere in the protocol)", "DNS names are syntactically valid host names (Go's x509 parser rejects others)",
                     "validity-window edges within one hour of the wall clock are not asserted either way"],
        parts=[
            part("issue", "netprops", "TestC20Issue", "C20.issue", inproc=True,
                 quick=dict(checks=2400, shards=8, budget_s=300),
                 thorough=dict(checks=100000, shards=16, budget_s=3000, shrink="2m")),
            part("der", "netprops", "TestC20Der", "C20.der", inproc=True,
                 quick=dict(checks=40000, shards=4, budget_s=300),
                 thorough=dict(checks=2000000, shards=16, budget_s=3000, shrink="2m")),
            part("der-fuzz", "netprops", "FuzzC20Der", "C20.der", inproc=True, fuzz=True,
                 quick=None, thorough=dict(fuzztime_s=240, budget_s=900)),
            part("issue-fuzz", "netprops", "FuzzC20Issue", "C20.issue", inproc=True, fuzz=True,
                 quick=None, thorough=dict(fuzztime_s=180, budget_s=900)),
        ],
    ),
    "C09": dict(
        level="exploration",
        exhaustive_thorough=True,
        text="Exploration by generated search over the certificate attribute product (authority x validity x usage x names x pins x role x name mode): each peer certificate is built with the "
             "standard library and judged by an independent decision procedure, then presented (1) to the function returned by ReceptorVerifyFunc, (2) in a real crypto/tls handshake whose "
             "configurations were prepared by receptor from files, (3) in a DialContext/Accept on a two-node mesh with a mutually authenticated listener. The thorough tier enumerates the "
             "complete product at level 1 (exhaustive over the listed attribute values, not over all certificates).",
        note="Trusted: Go's crypto/x509 and crypto/tls; the reference decision procedure. A pin list that mixes a matching entry with an unusable (wrong-length) one is unconstrained. "
             "EKU-absent certificates are acceptable for any role (Go semantics).",
        technique="property-based testing (rapid) over a finite attribute product with a reference decision procedure; complete enumeration of the product in the thorough tier",
        assumptions=["validity margins are two hours around the wall clock", "client-side DNS mode without a host name is not a usable TLS client configuration and is skipped at handshake level"],
        parts=[
            part("verify", "netprops", "TestC09Verify", "C09.verify", inproc=True,
                 quick=dict(checks=6000, shards=4, budget_s=300),
                 thorough=dict(checks=40000, shards=4, budget_s=1200, shrink="1m")),
            part("enumerate", "netprops", "TestC09Enumerate", "C09.verify", inproc=True, enumerate=True,
                 quick=None,
                 thorough=dict(checks=0, shards=8, budget_s=1800)),
            part("verify-fuzz", "netprops", "FuzzC09Verify", "C09.verify", inproc=True, fuzz=True,
                 quick=None, thorough=dict(fuzztime_s=180, budget_s=900)),
            part("tls", "netprops", "TestC09TLS", "C09.tls", inproc=True,
                 quick=dict(checks=600, shards=6, budget_s=300),
                 thorough=dict(checks=12000, shards=12, budget_s=1800, shrink="1m")),
            part("mesh", "netprops", "TestC09Mesh", "C09.mesh",
                 quick=dict(checks=32, shards=8, budget_s=300),
                 thorough=dict(checks=240, shards=8, budget_s=2400, shrink="2m")),
        ],
    ),
    "C14": dict(
        level="exploration",
        text="Exploration by generated search over schedules: N goroutines and M helper OS processes run generated operation lists (read-modify-write updates with pauses inside the "
             "callback, loads, whole-record saves, UpdateBasicStatus) against one status file through the real StatusFileData API; invariants over every load and the final record "
             "(no lost update, no wiped field, no partial record), plus exact model comparison on drawn sequential interleavings of writers with private in-memory copies.",
        note="Trusted: the OS file lock; interleavings are sampled by the scheduler (the harness widens the windows with pauses inside callbacks and synchronised starts), not enumerated.",
        technique="property-based testing (rapid): generated concurrent operation lists with history invariants (counter conservation), and model-based sequential interleavings",
        assumptions=["helper processes start their operation lists at a common wall-clock instant; overlap is measured, not assumed",
                     "Save is a whole-record overwrite by design, so totals are only asserted in histories without Save"],
        parts=[
            part("status", "workprops", "TestC14", "C14",
                 quick=dict(checks=240, shards=8, budget_s=300),
                 thorough=dict(checks=6000, shards=16, budget_s=3000, shrink="2m")),
        ],
    ),
    "C07": dict(
        level="exploration",
        text="Exploration by grammar-based generated search: a hostile scripted peer sends generated message sequences (every message type, field-type substitutions, absurd semantics, "
             "truncations, oversize, lying stream frames) to a real node before and after the handshake, on a datagram link and on receptor's stream framing; the executor process is "
             "crash-contained, and after the hostile session ends the node must answer Status(), serve its old peer, accept a fresh peer and route between them.",
        note="Trusted: the in-memory link / chunking stream of the harness. Liveness is judged after the hostile session has ended (while it is connected a lying peer may legitimately attract "
             "traffic). Transports: in-memory datagram link, receptor's stream framing over a chunking pipe, and the real TCP / UDP / websocket listeners on loopback.",
        technique="grammar-based property testing (rapid) with process-level crash containment; robustness oracle = liveness + routing probes through the node",
        assumptions=["forged updates about the well-behaved nodes never carry their real start epoch (24 random bits + time: not guessable by the generator)"],
        parts=[
            part("peer", "netprops", "TestC07", "C07",
                 quick=dict(checks=160, shards=8, budget_s=420),
                 thorough=dict(checks=8000, shards=16, budget_s=3300, shrink="3m")),
        ],
    ),
    "C11": dict(
        level="exploration",
        text="Model-based exploration: a real node with a generated backend policy faces scripted sessions that perform generated handshakes and later updates (identity, cost, "
             "forwarder, de-listing, session end, racing twins); an independent admission predicate and cost function decide what must be connected, and Connections, costs, the node's "
             "own adjacency, leftover routes and reject/close behaviour are compared after every step. A second part starts a later node with a reused ID on a real chain.",
        note="Trusted: the reference admission predicate; in-memory ordered links. Goroutine-level races between sessions are sampled (the harness releases both twin handshakes at once).",
        technique="model-based property testing (rapid): generated session scripts against a reference admission predicate; real-mesh scenario for duplicate IDs",
        assumptions=["the later twin starts >= 1.2 s after the earlier node (epoch granularity, as the property states)"],
        parts=[
            part("admission", "netprops", "TestC11", "C11",
                 quick=dict(checks=200, shards=8, budget_s=300),
                 thorough=dict(checks=6000, shards=16, budget_s=3000, shrink="2m")),
            part("twin", "netprops", "TestC11Twin", "C11.twin",
                 quick=dict(checks=8, shards=4, budget_s=300),
                 thorough=dict(checks=96, shards=8, budget_s=2400, shrink="2m")),
        ],
    ),
    "C18": dict(
        level="exploration",
        text="Model-based exploration: (A) one real node receives generated delivery orders of advertisements and withdrawals (any order, link, duplication) and its listing is compared "
             "after every delivery with a model that keeps the newest message per service; (B) real meshes with cycles run generated histories of advertised listeners opened and closed, "
             "with late joiners, and every node's listing must converge to exactly the open advertised services with type and tags.",
        note="Trusted: the reference model (greatest timestamp per key); ordered in-memory links in (B). Histories in (B) contain no link cuts or node stops (the quantifier lists neither).",
        technique="model-based property testing (rapid): generated delivery orders against a newest-timestamp model; generated listener histories on real meshes against the set of open services",
        assumptions=["an advertisement and a withdrawal of the same service never carry the same timestamp", "convergence deadline: 40 advertisement periods + 8 s"],
        parts=[
            part("model", "netprops", "TestC18", "C18",
                 quick=dict(checks=240, shards=8, budget_s=300),
                 thorough=dict(checks=6000, shards=12, budget_s=3000, shrink="2m")),
            part("mesh", "netprops", "TestC18Mesh", "C18.mesh",
                 quick=dict(checks=96, shards=8, budget_s=400),
                 thorough=dict(checks=400, shards=12, budget_s=3300, shrink="3m")),
        ],
    ),
    "C10": dict(
        level="exploration",
        text="Exploration by generated search on real meshes: for drawn (source, destination, hop budget) Ping, Traceroute and raw datagrams are judged against the length of the actual "
             "next-hop chain (reach iff d <= h; otherwise 'message expired' from the node where the budget ran out); with adversarial next hops installed for a phantom destination "
             "(2- and 3-node loops) link taps count every transmission: exactly h, along the installed hops, with decreasing TTL, then one expiry notice and silence.",
        note="Trusted: the link taps of the harness; the hook VerifSetRoute (tag verif) that installs next hops. Budgets 0..255 are sampled with bias to the route length, not enumerated.",
        technique="property-based testing (rapid): generated topologies / budgets against a walk-length oracle, transmissions counted on instrumented links",
        assumptions=["the routing tables are read after convergence and do not change during a probe (no events are injected)"],
        parts=[
            part("hops", "netprops", "TestC10", "C10",
                 quick=dict(checks=128, shards=8, budget_s=400),
                 thorough=dict(checks=1600, shards=16, budget_s=3300, shrink="3m")),
        ],
    ),
    "C16": dict(
        level="exploration",
        text="Exploration by generated search on real chains: sockets, targets (unbound, closed before or around the send, silently dropped, bound; remote or own node), bursts, hop budgets "
             "and node hop limits are drawn; every notice received by every socket is recorded and compared with the multiset the statement requires (one well-formed 'service unknown' per "
             "datagram to an unbound service, at the sending socket only, none for dropped/bound traffic); stream dials to unbound services must fail fast, dials into a drop rule must last "
             "until their own deadline.",
        note="Trusted: in-memory ordered links. In the window where a service is closed around the send only absence of mis-delivery and well-formedness are asserted.",
        technique="property-based testing (rapid): generated send/dial histories against a multiset oracle over all observed notices",
        assumptions=["positive expectations wait up to 25 s; absence is judged after a 0.4 s grace once all expected notices have arrived"],
        parts=[
            part("notices", "netprops", "TestC16", "C16",
                 quick=dict(checks=128, shards=8, budget_s=420),
                 thorough=dict(checks=1600, shards=16, budget_s=3300, shrink="3m")),
        ],
    ),
    "C02": dict(
        level="exploration",
        text="Exploration by generated search on real meshes: node IDs, service names, payloads (every boundary length up to the MTU), topologies, link kinds (datagram or receptor's own stream "
             "framing read in arbitrary piece sizes) and concurrent sender batches are drawn; every listener records everything it receives and the multiset of (payload, source node, source "
             "service) per listener must equal the multiset addressed to it - nothing lost, altered, duplicated or handed to another listener.",
        note="Trusted: reliable in-memory links; the stream variant exercises receptor's framer and ExternalBackend exactly as TCP does (real TCP/websocket sockets are a thorough-tier transport). "
             "64-bit name-hash collisions are out of reach and not attempted.",
        technique="property-based testing (rapid): generated names/payloads/topologies/chunkings with a multiset-equality oracle over all listeners",
        assumptions=["node IDs are valid UTF-8 and not 'localhost' in any letter case", "links are reliable, so exactly-once is required (deadline 30 s)"],
        parts=[
            part("datagrams", "netprops", "TestC02", "C02",
                 quick=dict(checks=240, shards=8, budget_s=420),
                 thorough=dict(checks=4000, shards=16, budget_s=3300, shrink="3m")),
        ],
    ),
    "C03": dict(
        level="exploration",
        text="Exploration by generated search: QUIC streams over real multi-hop meshes whose links run generated fault programmes (loss with bounded rate, duplication, delay, reordering), "
             "with generated write/read boundaries in both directions, optional re-routing by cutting the active path, directly or through the TCP proxy bridge; every byte read is checked "
             "against its offset in the written stream (safety, always) and completeness + end-of-stream are required for loss rates the transport is specified to survive.",
        note="Trusted: the fault-injecting in-memory links; quic-go for congestion/retransmission. Above 3 % loss per link an incomplete transfer is inconclusive, not a violation. "
             "Half-close through the TCP bridge is unconstrained (the bridge closes its peer fully by design).",
        technique="property-based testing (rapid) with fault injection: generated loss/dup/delay/reorder schedules and write scripts, offset-function oracle on every byte",
        assumptions=["the dialling side sends at least one byte (receptor streams are announced to the acceptor by the first write)",
                     "completeness deadline 75 s; QUIC idle timeout 30 s"],
        parts=[
            part("streams", "netprops", "TestC03", "C03",
                 quick=dict(checks=48, shards=8, budget_s=600),
                 thorough=dict(checks=640, shards=16, budget_s=3400, shrink="3m")),
        ],
    ),
    "C17": dict(
        level="exploration",
        text="Exploration by generated search over operation histories: open/dial/ping/accept/close operations of every kind (success and failure paths, double close, cancellation mid-dial, "
             "closes racing concurrent senders or parked deliveries), repeated on the same mesh, in a crash-contained process; a model of what is open is compared with every node's listener "
             "registry after settling, close-like calls are watch-dogged, goroutines holding receptor/QUIC frames are counted per round and after Shutdown; residues are attributed to the operation "
             "class that produced them so that a listed finding covers only its own residue.",
        note="Trusted: runtime.Stack for goroutine attribution; the registry accessors. Goroutine interleavings are sampled. Stream listeners get fresh names (re-listening on a just-closed stream service is a listed finding).",
        technique="stateful property-based testing (rapid): generated operation histories against a resource model, with process-level crash containment and watchdogs",
        assumptions=["settling deadline 40 s with the QUIC idle timeout lowered to 2 s (an exported variable)", "one executor process per scenario"],
        parts=[
            part("lifecycle", "netprops", "TestC17", "C17",
                 quick=dict(checks=64, shards=8, budget_s=600),
                 thorough=dict(checks=400, shards=16, budget_s=3400, shrink="4m")),
        ],
    ),
    "C19": dict(
        level="exploration",
        text="Exploration by generated search: parameter maps (secret spellings in every case, near misses, ordinary keys; unique marker values) are submitted as remote work to an in-process "
             "node and followed by generated histories of status/list/cancel/release commands and restarts of the work subsystem; every byte the control service sends on every connection is "
             "scanned for the secret markers, non-secret pairs must come back unchanged, and a secret without a TLS profile must be refused before a unit directory exists.",
        note="Trusted: the reference reading of 'begins with secret_ in any letter case' (ASCII case folding; keys that only Unicode folding maps onto the prefix are unconstrained). "
             "The work subsystem is restarted in-process (new Workceptor + control service on the same data directory).",
        technique="property-based testing (rapid): generated parameter maps and command histories with a taint-style oracle (secret markers must not occur in any output byte)",
        assumptions=["the remote node is absent, so the unit stays pending and inspectable", "values are unique 16-character markers, so substring search has no false positives"],
        parts=[
            part("secrets", "workprops", "TestC19", "C19",
                 quick=dict(checks=400, shards=8, budget_s=300),
                 thorough=dict(checks=8000, shards=16, budget_s=3000, shrink="2m")),
        ],
    ),
    "C15": dict(
        level="exploration",
        text="Exploration by generated search over command x connection kind x work type x token: tokens are constructed by hand (valid, expired, wrong audience, wrong key, alg none, HMAC keyed "
             "with the public key, truncated, tampered ...) and sent with submit/cancel/release/force-release/results over a Unix socket, TCP and a mesh stream to an in-process node; a reference "
             "decision says whether the command must take effect, and the effect is observed (unit directories, unit state, bytes streamed), not inferred from the reply.",
        note="Trusted: the hand-made JWT encoder and the reference decision. Correctly signed tokens with another RSA algorithm, without exp, or with a future nbf are unconstrained.",
        technique="property-based testing (rapid) over a finite product with hand-built tokens and a reference decision procedure; effects observed out of band",
        assumptions=["remote submissions are judged by the rule 'a token sent to a work type that does not expect one is refused' (the signing rule for remote work is enforced on the executing node)"],
        parts=[
            part("signatures", "workprops", "TestC15", "C15",
                 quick=dict(checks=240, shards=8, budget_s=400),
                 thorough=dict(checks=6000, shards=16, budget_s=3300, shrink="2m")),
        ],
    ),
    "C08": dict(
        level="exploration",
        text="Exploration by grammar-based generated search: concurrent control sessions send generated request lines (every built-in command with field-type substitutions, odd unit IDs incl. "
             "on-disk-only and path-like ones, malformed JSON, binary and over-long lines, disconnects) to an in-process node inside a crash-contained process; each line carries a by-construction "
             "label, invalid lines must be answered by an ERROR line, every request must be answered in time, and a fresh session must get 'status' and 'work list' answered afterwards.",
        note="Trusted: the by-construction labels of the grammar (lines whose validity is debatable are labelled 'any answer'). The node is hosted in-process; the kubernetes and python work types are not loaded.",
        technique="grammar-based property testing (rapid) with process-level crash containment; oracle = ERROR-reply rule + liveness probes on fresh sessions",
        assumptions=["reply deadline 20 s (ping may take 10 s by design), probe deadline 5 s"],
        parts=[
            part("control", "workprops", "TestC08", "C08",
                 quick=dict(checks=240, shards=8, budget_s=480),
                 thorough=dict(checks=8000, shards=16, budget_s=3300, shrink="3m")),
        ],
    ),
    "C05": dict(
        level="exploration",
        needs_receptor=True,
        text="Exploration by generated search: producer programmes (in-process units and real command units run by the receptor runner) with generated chunking/timing, result requests at "
             "generated moments and start offsets in both request forms; every received stream is compared byte for byte with the known output from that offset, must end, and must not end "
             "early. Remote variant: three in-process nodes, generated link cuts and relay restarts while status and output are mirrored; the submitter's stored output is polled and must "
             "always be a prefix of the remote output and become equal to it.",
        note="Trusted: the output functions (byte i is a fixed function of i), the fault-injecting links. Results of cancelled units are not constrained. The remote control service itself is not restarted "
             "(re-listening on the fixed service name 'control' right after a close is C17 territory).",
        technique="property-based testing (rapid): generated producer schedules x request offsets/timings with an exact-suffix oracle; fault injection on the mirroring path with a prefix invariant",
        assumptions=["streams must end within producer duration + 45 s (+ 60 s and fault durations for remote units)"],
        parts=[
            part("local", "workprops", "TestC05Local", "C05",
                 quick=dict(checks=64, shards=8, budget_s=500),
                 thorough=dict(checks=1600, shards=16, budget_s=3300, shrink="3m")),
            part("remote", "workprops", "TestC05Remote", "C05",
                 quick=dict(checks=16, shards=8, budget_s=600),
                 thorough=dict(checks=240, shards=16, budget_s=3400, shrink="3m")),
        ],
    ),
    "C13": dict(
        level="exploration",
        needs_receptor=True,
        text="Exploration by generated search over concurrent client histories: submit / status / list / cancel / release / force-release / results on in-process, command (real runner processes) and "
             "remote units, with schedule perturbation (holding a unit's status lock), link cuts and restarts of the work subsystem; a build-tag hook logs every rewrite of every status record under "
             "the record lock, and the complete write history is checked for stage monotonicity, Succeeded-stays-Succeeded and non-shrinking size; processes of cancelled units, removal after release "
             "and ID uniqueness are checked from outside (/proc, disk, API).",
        note="Trusted: hook H2 (verifStatusWrite, tag verif) and the ordering given by the status file lock; /proc for process liveness. Interleavings are sampled; the lock-holding operation makes the "
             "cancel-versus-completion window reachable.",
        technique="stateful property-based testing (rapid): generated concurrent command histories with an invariant over the complete (hooked) write history",
        assumptions=["a command that ignores SIGINT is killed after the 10 s grace period, so 'gone' is judged 25 s after the reply"],
        parts=[
            part("lifecycle", "workprops", "TestC13", "C13",
                 quick=dict(checks=64, shards=8, budget_s=600),
                 thorough=dict(checks=640, shards=16, budget_s=3400, shrink="3m")),
        ],
    ),
    "C04": dict(
        level="fault_enumeration",
        needs_receptor=True,
        text="Fault injection over crash points: generated histories of local and remote submissions in 1-3 daemon incarnations, each killed with SIGKILL at the n-th passage of a named point "
             "(hook inserted between the file-system steps of creating a unit, storing its input, rewriting the status record in daemon and runner, and the remote start) or at a drawn instant; "
             "what submitters were told is journalled with fsync, and a final incarnation on the same data directory is judged against it (identity, remote binding, final state/size, exact "
             "output, completion of running commands, never-started => failed, no blocking query). The point table is sampled by rapid in both tiers (quick: few dozen cases; thorough: hundreds).",
        note="Trusted: hook H1 (verifCrashPoint, tag verif), the fsync'ed journal of the harness. The daemon under test is hosted in the executor process (same packages as the receptor binary); "
             "runner processes and the remote daemon are the real binary. Units whose runner itself was killed are unconstrained for completion.",
        technique="fault-injection property testing (rapid): generated submission histories x crash-point table x kill instants, judged against a journal of acknowledged facts",
        assumptions=["the kill is SIGKILL of the whole daemon process; power loss (un-synced pages) is not modelled"],
        parts=[
            part("crash", "workprops", "TestC04", "C04.driver", inproc=True,
                 quick=dict(checks=40, shards=8, budget_s=600),
                 thorough=dict(checks=800, shards=16, budget_s=3400, shrink="3m")),
        ],
    ),
}
