"""Per-property configuration of the checks: parts (rapid drivers), case counts, shards and wall-clock budgets."""

def part(name, pkg, test, execname, quick, thorough, inproc=False):
    return dict(name=name, pkg=pkg, test=test, exec=execname, inproc=inproc, quick=quick, thorough=thorough)

PROPS = {
    "C12": dict(
        level="exploration",
        technique="property-based testing (rapid): generated rule lists x packets against a reference first-match interpreter",
        assumptions=["regexp semantics of Go's regexp package are shared by reference and implementation; only the anchoring/"
                     "grouping and the parse/refuse decision are independent",
                     "case-colliding duplicate keys in one rule are not generated (map order would make them ambiguous)"],
        parts=[
            part("pure", "netprops", "TestC12Pure", "C12.pure", inproc=True,
                 quick=dict(checks=20000, shards=4, budget_s=240),
                 thorough=dict(checks=1000000, shards=16, budget_s=1800, shrink="2m")),
        ],
    ),
}
