#!/bin/sh
# usage: run_thorough.sh C07 C08 ...   runs the thorough tier of the given properties one after the other and prints a summary
for p in "$@"; do
  echo "=== $p thorough $(date +%H:%M:%S)"
  ./check "$p" thorough > "thorough-$p.log" 2>&1
  echo "rc=$? $(grep -E '^OK|^VIOLATION|^INCONCLUSIVE' thorough-$p.log | head -5 | cut -c1-300)"
done
