#!/usr/bin/env python3-vt
"""Validates MANIFEST.json and every evidence file against the schemas in /root/.vp (development helper)."""
import json, glob, sys, jsonschema
ok = True
try:
    jsonschema.validate(json.load(open('/verif/MANIFEST.json')), json.load(open('/root/.vp/MANIFEST.schema.json')))
    print("MANIFEST valid")
except Exception as e:
    ok = False; print("MANIFEST INVALID", str(e)[:500])
es = json.load(open('/root/.vp/EVIDENCE.schema.json'))
for f in sorted(glob.glob('/verif/evidence/*.json')):
    try:
        jsonschema.validate(json.load(open(f)), es); print(f, "valid")
    except Exception as e:
        ok = False; print(f, "INVALID", str(e)[:300])
sys.exit(0 if ok else 1)
