"""Manifest metadata that is not per-check configuration: hook commits in /repo and reasons for unclaimed properties.
Per-check texts (level text / note / design_ref) live next to the check configuration in checkcfg.py."""
HOOK_COMMITS = ["ca2970c", "3089749", "b7987cc", "080c8d7", "8919266", "5d5766c", "08176a7", "b647bb5", "8bbfcb2"]

_ALL = ["C%02d" % i for i in range(1, 21)]

# property -> reason, for properties that are deliberately not claimed (kept current by hand)
NA_REASONS = {}


def _meta():
    from checkcfg import PROPS
    return {p: dict(text=c["text"], design_ref=c.get("design_ref", "DESIGN.md §6 " + p), note=c["note"]) for p, c in PROPS.items()}


def _na():
    from checkcfg import PROPS
    return [dict(property_id=p, reason=NA_REASONS.get(p, "check not built yet in this session (work in progress); no claim is made"))
            for p in _ALL if p not in PROPS]


META = _meta()
NOT_APPLICABLE = _na()
