HOOK_COMMITS = []

_ALL = ["C%02d" % i for i in range(1, 21)]

META = {
    "C12": dict(
        text="Exploration by generated search: rule lists as YAML delivers them (every key/value type, random key case, literal, "
             "regex-grammar and malformed patterns) and packets over a colliding name alphabet are judged by an independent "
             "first-match reference interpreter; refusal of uninterpretable rule sets is checked in both directions. Finds "
             "counterexamples, proves nothing.",
        design_ref="DESIGN.md §6 C12",
        note="Trusted: Go's regexp for the meaning of a single pattern; the harness' reference interpreter. Placement (origin/transit/"
             "destination) is covered by the mesh part when present.",
    ),
}

def _na():
    from checkcfg import PROPS
    return [dict(property_id=p, reason="check not built yet in this session (work in progress); no claim is made")
            for p in _ALL if p not in PROPS]

NOT_APPLICABLE = _na()
