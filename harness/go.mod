module verifharness

go 1.23

toolchain go1.23.5

require (
	github.com/ansible/receptor v0.0.0
	github.com/gorilla/websocket v1.5.3
	github.com/minio/highwayhash v1.0.3
	github.com/rogpeppe/go-internal v1.12.0
	pgregory.net/rapid v1.3.0
)

require (
	github.com/creack/pty v1.1.23 // indirect
	github.com/davecgh/go-spew v1.1.2-0.20180830191138-d8f796af33cc // indirect
	github.com/emicklei/go-restful/v3 v3.11.0 // indirect
	github.com/francoispqt/gojay v1.2.13 // indirect
	github.com/fsnotify/fsnotify v1.7.0 // indirect
	github.com/ghjm/cmdline v0.1.2 // indirect
	github.com/go-logr/logr v1.4.1 // indirect
	github.com/go-openapi/jsonpointer v0.19.6 // indirect
	github.com/go-openapi/jsonreference v0.20.2 // indirect
	github.com/go-openapi/swag v0.22.3 // indirect
	github.com/gogo/protobuf v1.3.2 // indirect
	github.com/golang-jwt/jwt/v4 v4.5.0 // indirect
	github.com/golang/protobuf v1.5.4 // indirect
	github.com/google/gnostic-models v0.6.8 // indirect
	github.com/google/go-cmp v0.6.0 // indirect
	github.com/google/gofuzz v1.2.0 // indirect
	github.com/google/shlex v0.0.0-20191202100458-e7afc7fbc510 // indirect
	github.com/google/uuid v1.4.0 // indirect
	github.com/hashicorp/hcl v1.0.0 // indirect
	github.com/imdario/mergo v0.3.15 // indirect
	github.com/josharian/intern v1.0.0 // indirect
	github.com/json-iterator/go v1.1.12 // indirect
	github.com/jupp0r/go-priority-queue v0.0.0-20160601094913-ab1073853bde // indirect
	github.com/magiconair/properties v1.8.7 // indirect
	github.com/mailru/easyjson v0.7.7 // indirect
	github.com/mitchellh/mapstructure v1.5.0 // indirect
	github.com/moby/spdystream v0.2.0 // indirect
	github.com/modern-go/concurrent v0.0.0-20180306012644-bacd9c7ef1dd // indirect
	github.com/modern-go/reflect2 v1.0.2 // indirect
	github.com/munnerz/goautoneg v0.0.0-20191010083416-a7dc8b61c822 // indirect
	github.com/mxk/go-flowrate v0.0.0-20140419014527-cca7078d478f // indirect
	github.com/pbnjay/memory v0.0.0-20210728143218-7b4eea64cf58 // indirect
	github.com/pelletier/go-toml/v2 v2.2.2 // indirect
	github.com/quic-go/quic-go v0.40.1 // indirect
	github.com/sagikazarmark/slog-shim v0.1.0 // indirect
	github.com/songgao/water v0.0.0-20200317203138-2b4b6d7c09d8 // indirect
	github.com/spf13/afero v1.11.0 // indirect
	github.com/spf13/cast v1.6.0 // indirect
	github.com/spf13/pflag v1.0.5 // indirect
	github.com/spf13/viper v1.19.0 // indirect
	github.com/subosito/gotenv v1.6.0 // indirect
	github.com/vishvananda/netlink v1.3.0 // indirect
	github.com/vishvananda/netns v0.0.4 // indirect
	golang.org/x/crypto v0.28.0 // indirect
	golang.org/x/exp v0.0.0-20240506185415-9bf2ced13842 // indirect
	golang.org/x/net v0.30.0 // indirect
	golang.org/x/oauth2 v0.18.0 // indirect
	golang.org/x/sys v0.26.0 // indirect
	golang.org/x/term v0.25.0 // indirect
	golang.org/x/text v0.19.0 // indirect
	golang.org/x/time v0.5.0 // indirect
	google.golang.org/protobuf v1.33.0 // indirect
	gopkg.in/inf.v0 v0.9.1 // indirect
	gopkg.in/ini.v1 v1.67.0 // indirect
	gopkg.in/yaml.v2 v2.4.0 // indirect
	gopkg.in/yaml.v3 v3.0.1 // indirect
	k8s.io/api v0.29.3 // indirect
	k8s.io/apimachinery v0.29.3 // indirect
	k8s.io/client-go v0.29.3 // indirect
	k8s.io/klog/v2 v2.110.1 // indirect
	k8s.io/kube-openapi v0.0.0-20231010175941-2dd684a91f00 // indirect
	k8s.io/utils v0.0.0-20230726121419-3b25d923346b // indirect
	sigs.k8s.io/json v0.0.0-20221116044647-bc3834ca7abd // indirect
	sigs.k8s.io/structured-merge-diff/v4 v4.4.1 // indirect
	sigs.k8s.io/yaml v1.3.0 // indirect
)

replace github.com/ansible/receptor => /repo

replace github.com/quic-go/quic-go v0.40.1 => github.com/AaronH88/quic-go v0.0.0-20240925173611-8b838692e0f5
