package workprops

import (
	"testing"
	"time"

	"pgregory.net/rapid"

	"verifharness/vx"
)

func genC15(t *rapid.T) C15Scn {
	var s C15Scn
	n := rapid.IntRange(1, 5).Draw(t, "ntrials")
	for i := 0; i < n; i++ {
		s.Trials = append(s.Trials, C15Trial{
			Cmd:      rapid.SampledFrom([]string{"submit", "cancel", "release", "force-release", "results"}).Draw(t, "cmd"),
			Conn:     rapid.SampledFrom([]string{"unix", "tcp", "tcp", "mesh"}).Draw(t, "conn"),
			Type:     rapid.SampledFrom([]string{"vprod", "vprod", "vprod", "prod", "remote-signed", "remote-plain", "unknown", "vprod-case"}).Draw(t, "type"),
			Token:    rapid.SampledFrom(append(append([]string{}, c15Tokens...), "expired-replay")).Draw(t, "token"),
			JSONForm: rapid.IntRange(0, 4).Draw(t, "json") > 0,
		})
	}
	return s
}

func TestC15(t *testing.T) {
	st := vx.NewStats("C15", "signatures", "an in-process node with a verifying work type, a non-verifying one, remote units with and without signing, a verification key file and control services on a Unix socket, TCP and the mesh; "+
		"1-5 trials {submit, cancel, release, force-release, results} x connection kind x work type (verifying, non-verifying, remote signed / plain, unknown, the verifying type's name in other capitalisation) x token from {absent, empty, garbage, valid RS512, audience list containing the node, expired, other audience, no audience, other key, "+
		"alg none, HS256/384/512 keyed with the public key PEM, truncated, tampered payload, RS256 with the right key, no exp, nbf in the future, a short-lived token used while valid and replayed 3 s later after it expired}; tokens are built by hand; oracle = reference decision (refuse a token where none is "+
		"expected; require a valid one where expected unless on the Unix socket), effects observed on disk / unit state / bytes streamed; non-trivial = a token-expecting type over a non-Unix connection; distinct by canonical JSON")
	defer st.Flush()
	r := &vx.Runner{Name: "C15", Timeout: 300 * time.Second, Recycle: 60}
	defer r.Close()
	rapid.Check(t, func(t *rapid.T) {
		s := genC15(t)
		st.Judge(t, s, r.Run(s))
	})
}
