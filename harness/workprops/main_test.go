package workprops

import (
	"os"
	"strings"
	"testing"

	"verifharness/vx"
)

func TestMain(m *testing.M) {
	vx.Main(m)
}

func thorough() bool { return os.Getenv("VX_TIER") == "thorough" }

// TestReplay runs scenario files (VX_REPLAY_FILES, comma separated) through executor VX_REPLAY_EXEC without rapid.
func TestReplay(t *testing.T) {
	files := os.Getenv("VX_REPLAY_FILES")
	name := os.Getenv("VX_REPLAY_EXEC")
	if files == "" || name == "" {
		t.Skip("no replay requested")
	}
	r := &vx.Runner{Name: name, InProc: os.Getenv("VX_REPLAY_INPROC") == "1"}
	defer r.Close()
	vx.ReplayFiles(t, r, name, strings.Split(files, ","))
}
