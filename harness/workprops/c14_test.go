package workprops

import (
	"testing"
	"time"

	"pgregory.net/rapid"

	"verifharness/vx"
)

func genC14(t *rapid.T) C14Scn {
	mode := rapid.SampledFrom([]string{"conc", "conc", "conc", "seq", "seq", "save"}).Draw(t, "mode")
	s := C14Scn{Mode: mode}
	nw := rapid.IntRange(1, 8).Draw(t, "writers")
	maxProc := rapid.SampledFrom([]int{0, 1, 2, 2, 4}).Draw(t, "maxproc")
	if mode == "seq" {
		nw = rapid.IntRange(2, 4).Draw(t, "seqwriters")
		maxProc = rapid.SampledFrom([]int{0, 0, 1, 2}).Draw(t, "seqmaxproc")
	}
	for i := 0; i < nw; i++ {
		w := C14Writer{Proc: rapid.IntRange(0, maxProc).Draw(t, "proc")}
		nops := rapid.IntRange(5, 40).Draw(t, "nops")
		if mode == "seq" {
			nops = rapid.IntRange(1, 8).Draw(t, "seqnops")
		}
		for k := 0; k < nops; k++ {
			var op C14Op
			switch mode {
			case "conc":
				op.K = rapid.SampledFrom([]string{"upd", "upd", "upd", "load"}).Draw(t, "k")
			case "save":
				op.K = rapid.SampledFrom([]string{"upd", "upd", "load", "load", "save"}).Draw(t, "k")
			default:
				op.K = rapid.SampledFrom([]string{"upd", "basic", "basic", "load"}).Draw(t, "k")
				op.State = rapid.IntRange(0, 2).Draw(t, "state")
				op.Det = rapid.SampledFrom([]int{0, 1, 4}).Draw(t, "det") // two texts and the empty one
				op.Size = rapid.IntRange(0, 1).Draw(t, "size")
			}
			op.Pause = rapid.SampledFrom([]int{0, 0, 1, 2, 3}).Draw(t, "pause")
			op.Fresh = rapid.IntRange(0, 3).Draw(t, "fresh") == 0
			if op.K == "save" {
				op.Size = rapid.IntRange(0, 49).Draw(t, "savesize")
			}
			w.Ops = append(w.Ops, op)
		}
		s.Writers = append(s.Writers, w)
	}
	if mode == "seq" {
		n := 0
		for _, w := range s.Writers {
			n += len(w.Ops)
		}
		s.Order = rapid.SliceOfN(rapid.IntRange(0, nw-1), n, 2*n).Draw(t, "order")
	}
	return s
}

func TestC14(t *testing.T) {
	st := vx.NewStats("C14", "status", "1-8 writers (goroutines and up to 4 helper OS processes) with 5-40 operations each against one status file: conc mode = read-modify-write updates "+
		"(own counter, shared StdoutSize, Detail = decimal total; optional yield/sleep inside the callback; persistent or blank in-memory record) and loads, oracle = every load parses and is "+
		"self-consistent, final totals equal the number of updates per writer; save mode adds whole-record Saves (no totals, consistency only); seq mode = a drawn sequential interleaving of "+
		"update / UpdateBasicStatus / load by 2-4 writers with private in-memory copies, oracle = stored record equals an exact model after every step; non-trivial = two writers in different "+
		"processes measurably overlapped (conc/save) or >= 6 sequential steps by >= 2 writers; distinct by canonical JSON")
	defer st.Flush()
	r := &vx.Runner{Name: "C14", Timeout: 150 * time.Second, Recycle: 300}
	defer r.Close()
	rapid.Check(t, func(t *rapid.T) {
		s := genC14(t)
		st.Judge(t, s, r.Run(s))
	})
}
