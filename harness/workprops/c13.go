package workprops

import (
	"bufio"
	"encoding/json"
	"fmt"
	"os"
	"path/filepath"
	"sort"
	"strconv"
	"strings"
	"sync"
	"time"

	"github.com/ansible/receptor/pkg/workceptor"
	"github.com/rogpeppe/go-internal/lockedfile"

	"verifharness/vx"
)

// ---- scenario ----------------------------------------------------------------------------------------

type C13Op struct {
	K    string `json:"k"`              // submit | status | list | cancel | release | force-release | results | sleep | hold | cut | heal | restart
	Kind string `json:"kind,omitempty"` // submit: prod-short prod-long cmd-short cmd-long cmd-stubborn remote-long remote-absent
	U    int    `json:"u,omitempty"`    // unit index into the list of units known so far (mod); special: -1 unknown id, -2 an already released id
	Ms   int    `json:"ms,omitempty"`
}

type C13Scn struct {
	Clients [][]C13Op `json:"clients"` // each client runs its list sequentially; clients run concurrently
}

type c13Unit struct {
	id           string
	kind         string
	childPID     int
	cancelled    bool // a "cancelled" reply was received
	released     bool // a "released" reply was received
	releaseAsked bool
}

func pidAlive(pid int) bool {
	if pid <= 0 {
		return false
	}
	b, err := os.ReadFile(fmt.Sprintf("/proc/%d/stat", pid))
	if err != nil {
		return false
	}
	// state is the field after the ")" of the command name; Z = zombie (already dead, not yet reaped)
	s := string(b)
	if i := strings.LastIndex(s, ")"); i >= 0 && i+2 < len(s) {
		return s[i+2] != 'Z'
	}
	return true
}

func execC13(b []byte) vx.Verdict {
	var s C13Scn
	if err := json.Unmarshal(b, &s); err != nil {
		return vx.Inconclusive("bad scenario: %v", err)
	}
	dir, err := os.MkdirTemp("", "c13")
	if err != nil {
		return vx.Inconclusive("tempdir: %v", err)
	}
	defer os.RemoveAll(dir)
	statusLog := filepath.Join(dir, "status-writes.log")
	os.Setenv("VERIF_STATUS_LOG", statusLog)
	m := vx.NewMesh(vx.DefaultNodeOpts())
	defer m.Close()
	na, nb := m.StartNode("na"), m.StartNode("nb")
	link := &vx.Link{A: "na", B: "nb", CostA: 1, CostB: 1, Spec: vx.LinkSpec{Ordered: true}}
	m.AddLink(link)
	_ = os.MkdirAll(filepath.Join(dir, "a"), 0o700)
	_ = os.MkdirAll(filepath.Join(dir, "b"), 0o700)
	wa, err := NewWNode(na.N, filepath.Join(dir, "a"), WNodeOpts{})
	if err != nil {
		return vx.Inconclusive("node a: %v", err)
	}
	defer wa.Close()
	wb, err := NewWNode(nb.N, filepath.Join(dir, "b"), WNodeOpts{MeshSvc: "control"})
	if err != nil {
		return vx.Inconclusive("node b: %v", err)
	}
	defer wb.Close()
	registerCmd(wa)
	registerCmd(wb)
	if msg := vx.WaitFor(30*time.Second, 20*time.Millisecond, func() string {
		if na.N.Status().RoutingTable["nb"] == "" || nb.N.Status().RoutingTable["na"] == "" {
			return "no route"
		}
		return ""
	}); msg != "" {
		return vx.Inconclusive("mesh: %s", msg)
	}

	var mu sync.Mutex
	var units []*c13Unit
	var acked []string
	var verdict *vx.Verdict
	labels := []string{fmt.Sprintf("clients=%d", len(s.Clients))}
	fail := func(v vx.Verdict) {
		mu.Lock()
		if verdict == nil {
			verdict = &v
		}
		mu.Unlock()
	}
	var topoMu sync.Mutex // cut / heal / restart are serialised
	// a restart of the work subsystem stands for a restart of the daemon: no control command is in flight across it
	// (in the real system the old process is gone), so commands hold this lock for reading and the restart for writing
	var inflight sync.RWMutex
	sock := func() string { mu.Lock(); defer mu.Unlock(); return wa.Sock }
	ctl := func() (*Ctl, error) { return DialCtl("unix", sock(), nil) }
	cancelBeforeFinish, overlappingSubmits := false, 0

	runClient := func(ci int, ops []C13Op) {
		var lastMine *c13Unit // the unit this client submitted last (operations with U == 999 aim at it)
		for oi, op := range ops {
			mu.Lock()
			stop := verdict != nil
			mu.Unlock()
			if stop {
				return
			}
			pick := func() *c13Unit {
				mu.Lock()
				defer mu.Unlock()
				if op.U == 999 {
					return lastMine
				}
				if op.U < 0 || len(units) == 0 {
					return nil
				}
				return units[op.U%len(units)]
			}
			func() {
				if op.K != "sleep" && op.K != "restart" && op.K != "hold" {
					inflight.RLock()
					defer inflight.RUnlock()
				}
				switch op.K {
				case "sleep":
					time.Sleep(time.Duration(op.Ms) * time.Millisecond)
				case "submit":
					c, err := ctl()
					if err != nil {
						return
					}
					req := map[string]interface{}{"node": "na", "worktype": "prod"}
					var payload []byte
					switch op.Kind {
					case "prod-short":
						payload, _ = json.Marshal(ProdProgram{Chunks: []ProdChunk{{Len: 500}, {Len: 500, DelayMs: 100}}, Final: 2})
					case "prod-long":
						payload, _ = json.Marshal(ProdProgram{Chunks: []ProdChunk{{Len: 500}, {Len: 1, DelayMs: 600000}}, Final: 2})
					case "cmd-short":
						req["worktype"], req["params"] = "cmd", "'echo $$; seq 1 200; sleep 0.3; seq 1 200'"
					case "cmd-long":
						req["worktype"], req["params"] = "cmd", "'echo $$; seq 1 50; exec sleep 600'"
					case "cmd-stubborn":
						req["worktype"], req["params"] = "cmd", "'trap \"\" INT; echo $$; exec sleep 600'"
					case "remote-long":
						req["node"] = "nb"
						payload, _ = json.Marshal(ProdProgram{Chunks: []ProdChunk{{Len: 500}, {Len: 1, DelayMs: 600000}}, Final: 2})
					case "remote-absent":
						req["node"] = "absent"
					default:
						payload, _ = json.Marshal(ProdProgram{Final: 2})
					}
					mu.Lock()
					overlappingSubmits++
					mu.Unlock()
					first, _, err := c.Submit(req, payload, 30*time.Second)
					c.Close()
					if err != nil || !strings.HasPrefix(first, "Work unit created") {
						return // e.g. the control service was being restarted
					}
					id := unitIDFromFirst(first)
					mu.Lock()
					lastMine = &c13Unit{id: id, kind: op.Kind}
					units = append(units, lastMine)
					acked = append(acked, id)
					labels = append(labels, "submit:"+op.Kind)
					mu.Unlock()
				case "status", "list", "results":
					u := pick()
					id := "nosuchid"
					if u != nil {
						id = u.id
					}
					c, err := ctl()
					if err != nil {
						return
					}
					line := ""
					switch op.K {
					case "status":
						line, _ = c.Command("work status "+id, 20*time.Second)
					case "list":
						line, _ = c.Command("work list", 20*time.Second)
					case "results":
						line, _ = c.Command("work results "+id, 20*time.Second)
					}
					c.Close()
					_ = line
				case "cancel", "release", "force-release":
					u := pick()
					id := "nosuchid"
					if u != nil {
						id = u.id
					}
					c, err := ctl()
					if err != nil {
						return
					}
					// the stubborn payload takes the 10 s SIGINT grace period before it is killed
					line, err := c.Command("work "+op.K+" "+id, 60*time.Second)
					c.Close()
					if err != nil {
						fail(vx.Violation("answered", "C13/"+op.K+"-unanswered", "client %d op %d: 'work %s %s' (%v) unanswered within 60 s: %v", ci, oi, op.K, id, kindOf(u), err))
						return
					}
					if u == nil {
						return
					}
					mu.Lock()
					labels = append(labels, op.K+":"+u.kind)
					if op.K == "cancel" && strings.Contains(line, `"cancelled"`) {
						u.cancelled = true
						if strings.Contains(u.kind, "long") || strings.Contains(u.kind, "stubborn") {
							cancelBeforeFinish = true
						}
					}
					if op.K != "cancel" {
						u.releaseAsked = true
						if strings.Contains(line, `"released"`) {
							u.released = true
							if !strings.Contains(u.kind, "short") {
								cancelBeforeFinish = true
							}
						}
					}
					mu.Unlock()
				case "hold":
					u := pick()
					if u == nil {
						return
					}
					lf, err := lockedfile.OpenFile(filepath.Join(wa.DataDir, "na", u.id, "status.lock"), os.O_CREATE|os.O_WRONLY, 0o600)
					if err == nil {
						time.Sleep(time.Duration(op.Ms) * time.Millisecond)
						lf.Close()
						mu.Lock()
						labels = append(labels, "status-lock-held")
						mu.Unlock()
					}
				case "cut":
					topoMu.Lock()
					link.SetUp(false)
					topoMu.Unlock()
					mu.Lock()
					labels = append(labels, "link-cut")
					mu.Unlock()
				case "heal":
					topoMu.Lock()
					link.SetUp(true)
					topoMu.Unlock()
				case "restart":
					inflight.Lock()
					topoMu.Lock()
					mu.Lock()
					_ = wa.RestartWork(filepath.Join(dir, "a"))
					registerCmd(wa)
					labels = append(labels, "submitter-restarted")
					mu.Unlock()
					topoMu.Unlock()
					inflight.Unlock()
				}
			}()
		}
	}
	var wg sync.WaitGroup
	for ci, ops := range s.Clients {
		wg.Add(1)
		go func(ci int, ops []C13Op) { defer wg.Done(); runClient(ci, ops) }(ci, ops)
	}
	if !vx.WithDeadline(400*time.Second, wg.Wait) {
		return vx.Violation("answered", "C13/clients-stuck", "clients did not finish within 400 s")
	}
	if verdict != nil {
		return *verdict
	}
	link.SetUp(true)
	// ---- child PIDs of command units (first line of their output)
	for _, u := range units {
		if strings.HasPrefix(u.kind, "cmd") {
			if f, err := os.Open(filepath.Join(wa.DataDir, "na", u.id, "stdout")); err == nil {
				line, _ := bufio.NewReader(f).ReadString('\n')
				f.Close()
				u.childPID, _ = strconv.Atoi(strings.TrimSpace(line))
			}
		}
	}
	// ---- cancelling stops the unit's process
	for _, u := range units {
		if (u.cancelled || u.released) && u.childPID > 0 {
			pid := u.childPID
			if msg := vx.WaitFor(25*time.Second, 100*time.Millisecond, func() string {
				if pidAlive(pid) {
					return "alive"
				}
				return ""
			}); msg != "" {
				return vx.CertainViolation("cancel-stops-process", "C13/process-survives-cancel:"+u.kind, "unit %s (%s) was reported cancelled/released but its process %d is still running 25 s later", u.id, u.kind, pid)
			}
		}
	}
	// ---- ... also on the remote node: what the submitter records as locally cancelled must not (go on to) run there
	if msg := vx.WaitFor(45*time.Second, 250*time.Millisecond, func() string {
		la, err := listUnits(wa.Sock, 10*time.Second)
		if err != nil {
			return "" // judged elsewhere
		}
		lb, err := listUnits(wb.Sock, 10*time.Second)
		if err != nil {
			return ""
		}
		for id, st := range la {
			m, ok := st.ExtraData.(map[string]interface{})
			if !ok {
				continue
			}
			lc, _ := m["LocalCancelled"].(bool)
			ru, _ := m["RemoteUnitID"].(string)
			if lc && ru != "" {
				if b, ok := lb[ru]; ok && (b.State == workceptor.WorkStateRunning || b.State == workceptor.WorkStatePending) {
					return fmt.Sprintf("unit %s is recorded as locally cancelled on the submitting node (state %s, %q) while its remote unit %s is %s on the executing node", id, workceptor.WorkStateToString(st.State), st.Detail, ru, workceptor.WorkStateToString(b.State))
				}
			}
		}
		return ""
	}); msg != "" {
		return vx.Violation("cancel-stops-process", "C13/remote-runs-after-cancel", "%s 45 s after the last operation (link healed)", msg)
	}
	// ---- a successful release removes the unit
	c, err := ctl()
	if err != nil {
		return vx.Violation("answered", "C13/no-session", "final session: %v", err)
	}
	listLine, _ := c.Command("work list", 20*time.Second)
	c.Close()
	var listed map[string]interface{}
	_ = json.Unmarshal([]byte(listLine), &listed)
	// the release of a started remote unit is answered once the executing node has released its unit; the local entry goes
	// when the submitter's status monitor has seen that (its next one-second look). The statement sets no time, so a released
	// unit that is still listed gets 15 s to disappear before it counts.
	vx.WaitFor(15*time.Second, 200*time.Millisecond, func() string {
		for _, u := range units {
			if _, ok := listed[u.id]; ok && u.released {
				if c2, err := ctl(); err == nil {
					l2, _ := c2.Command("work list", 20*time.Second)
					c2.Close()
					listed = map[string]interface{}{}
					_ = json.Unmarshal([]byte(l2), &listed)
				}
				return "still listed"
			}
		}
		return ""
	})
	for _, u := range units {
		if u.released {
			if _, ok := listed[u.id]; ok {
				return vx.CertainViolation("release-removes", "C13/released-still-listed", "unit %s (%s) was reported released but 'work list' still shows it", u.id, u.kind)
			}
			if _, err := os.Stat(filepath.Join(wa.DataDir, "na", u.id)); err == nil {
				return vx.CertainViolation("release-removes", "C13/released-dir-remains", "unit %s (%s) was reported released but its directory still exists", u.id, u.kind)
			}
			c, err := ctl()
			if err == nil {
				line, _ := c.Command("work status "+u.id, 20*time.Second)
				c.Close()
				if !strings.HasPrefix(line, "ERROR") {
					return vx.CertainViolation("release-removes", "C13/released-still-known", "unit %s was reported released but 'work status' answers %q", u.id, line)
				}
			}
		}
	}
	// ---- IDs are unique
	sort.Strings(acked)
	for i := 1; i < len(acked); i++ {
		if acked[i] == acked[i-1] {
			return vx.CertainViolation("unique-ids", "C13/duplicate-id", "two submissions were acknowledged with the same unit ID %s", acked[i])
		}
	}
	// ---- the complete history of status rewrites (hook, totally ordered per unit by the status file lock)
	time.Sleep(600 * time.Millisecond)
	releaseAsked := map[string]bool{}
	for _, u := range units {
		if u.releaseAsked {
			releaseAsked[u.id] = true
		}
	}
	if v := checkStatusLog(statusLog, filepath.Join(wa.DataDir, "na"), releaseAsked); v != nil {
		return *v
	}
	nontrivial := cancelBeforeFinish || overlappingSubmits >= 4
	v := vx.OK(nontrivial, dedup(labels)...)
	for k, n := range knownHits {
		v.Notes = append(v.Notes, fmt.Sprintf("known finding observed: %s x%d", k, n))
		v.Labels = append(v.Labels, "known:"+k)
	}
	knownHits = map[string]int{}
	return v
}

func kindOf(u *c13Unit) string {
	if u == nil {
		return "unknown id"
	}
	return u.kind
}

func stageOf(state int) int {
	switch state {
	case workceptor.WorkStatePending:
		return 0
	case workceptor.WorkStateRunning:
		return 1
	}
	return 2
}

// checkStatusLog verifies the monotonicity rules over every rewrite of every status record under dirPrefix.
var knownHits = map[string]int{}

// (Objects of an earlier in-process incarnation of the node are kept from writing by the VerifMarkDead hook; before that hook
// existed their late writes into a directory that was being released had to be filtered out here.)
func checkStatusLog(logFile, dirPrefix string, releaseAsked map[string]bool) *vx.Verdict {
	_ = releaseAsked
	f, err := os.Open(logFile)
	if err != nil {
		return nil
	}
	defer f.Close()
	type rec struct {
		pid      int
		newState int
		newSize  int64
		line     string
	}
	hist := map[string][]rec{}
	sc := bufio.NewScanner(f)
	sc.Buffer(make([]byte, 1<<20), 1<<20)
	for sc.Scan() {
		p := strings.Fields(sc.Text())
		if len(p) < 6 || !strings.HasPrefix(p[1], dirPrefix) {
			continue
		}
		pid, _ := strconv.Atoi(p[0])
		ns, _ := strconv.Atoi(p[4])
		nz, _ := strconv.ParseInt(p[5], 10, 64)
		hist[p[1]] = append(hist[p[1]], rec{pid, ns, nz, sc.Text()})
	}
	for file, recs := range hist {
		unit := filepath.Base(filepath.Dir(file))
		for i := 1; i < len(recs); i++ {
			prev, cur := recs[i-1], recs[i]
			trail := func() string {
				var out []string
				lo := i - 9
				if lo < 0 {
					lo = 0
				}
				for _, r := range recs[lo : i+1] {
					detail := ""
					if f := strings.SplitN(r.line, " ", 8); len(f) == 8 {
						detail = " " + f[7]
					}
					out = append(out, fmt.Sprintf("pid %d -> state %d size %d%s", r.pid, r.newState, r.newSize, detail))
				}
				return strings.Join(out, "; ")
			}
			if prev.newState == workceptor.WorkStateFailed && stageOf(cur.newState) < 2 && prev.pid != cur.pid {
				// the restarted daemon declared a launched-but-not-yet-reporting command "Failed (Pending at restart)" and
				// the still living runner process then went on reporting Pending / Running
				sig := "C13/failed-at-restart-then-runner-continues"
				if vx.IsKnown("C13", sig) {
					knownHits[sig]++
					continue
				}
				v := vx.CertainViolation("only-forward", sig, "unit %s: the restarted daemon (pid %d) recorded Failed for a command whose runner (pid %d) was still starting; the runner then recorded %s: the reported state went back (rewrites: %s)", unit, prev.pid, cur.pid, workceptor.WorkStateToString(cur.newState), trail())
				return &v
			}
			if stageOf(cur.newState) < stageOf(prev.newState) {
				v := vx.CertainViolation("only-forward", fmt.Sprintf("C13/stage-regressed:%d->%d", prev.newState, cur.newState), "unit %s: the stored state went back from %s to %s (rewrites: %s)", unit, workceptor.WorkStateToString(prev.newState), workceptor.WorkStateToString(cur.newState), trail())
				return &v
			}
			if prev.newState == workceptor.WorkStateSucceeded && (cur.newState != workceptor.WorkStateSucceeded || cur.newSize != prev.newSize) {
				v := vx.CertainViolation("succeeded-stays", fmt.Sprintf("C13/succeeded-overwritten:%d", cur.newState), "unit %s: a record that said Succeeded (size %d) was rewritten to %s (size %d) (rewrites: %s)", unit, prev.newSize, workceptor.WorkStateToString(cur.newState), cur.newSize, trail())
				return &v
			}
			if prev.newState == workceptor.WorkStateRunning && cur.newState == workceptor.WorkStateRunning && cur.newSize < prev.newSize {
				v := vx.CertainViolation("size-never-shrinks", "C13/size-shrank", "unit %s: the recorded output size shrank from %d to %d while running (rewrites: %s)", unit, prev.newSize, cur.newSize, trail())
				return &v
			}
		}
	}
	return nil
}

func init() { vx.Register("C13", execC13) }
