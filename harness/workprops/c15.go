package workprops

import (
	"crypto"
	"crypto/hmac"
	"crypto/rand"
	"crypto/rsa"
	"crypto/sha256"
	"crypto/sha512"
	"crypto/x509"
	"encoding/base64"
	"encoding/json"
	"encoding/pem"
	"fmt"
	"hash"
	"os"
	"path/filepath"
	"strings"
	"time"

	"github.com/ansible/receptor/pkg/netceptor"
	"github.com/ansible/receptor/pkg/workceptor"

	"verifharness/vx"
)

// ---- scenario ----------------------------------------------------------------------------------------

type C15Trial struct {
	Cmd      string `json:"cmd"`   // submit | cancel | release | force-release | results
	Conn     string `json:"conn"`  // unix | tcp | mesh
	Type     string `json:"type"`  // vprod (verifying) | prod (non-verifying) | remote-signed | remote-plain | unknown | vprod-case (the verifying type's name in other capitalisation)
	Token    string `json:"token"` // see tokenFor
	JSONForm bool   `json:"json"`  // commands other than submit: JSON or plain string form (the plain form cannot carry a token)
}

type C15Scn struct {
	Trials []C15Trial `json:"trials"`
}

var c15Tokens = []string{"absent", "empty", "garbage", "valid", "valid-audlist", "expired", "other-aud", "no-aud", "other-key", "alg-none", "hs256-pub", "hs384-pub", "hs512-pub", "truncated", "rs256-right-key", "no-exp", "tampered-payload", "nbf-future"}

func b64(b []byte) string { return base64.RawURLEncoding.EncodeToString(b) }

// makeToken builds a JWT by hand. judge: +1 valid (must be accepted where a token is required), -1 invalid (must be
// refused), 0 unconstrained.
func makeToken(kind string, node string, right, other *rsa.PrivateKey, pubPEM []byte) (tok string, judge int, present bool) {
	now := time.Now()
	claims := map[string]interface{}{"exp": now.Add(10 * time.Minute).Unix(), "aud": []string{node}}
	alg := "RS512"
	key := right
	judge = +1
	switch kind {
	case "absent":
		return "", -1, false
	case "empty":
		return "", -1, true
	case "garbage":
		return "not.a.token", -1, true
	case "valid":
	case "valid-audlist":
		claims["aud"] = []string{"someone", node, "else"}
	case "expired":
		claims["exp"] = now.Add(-10 * time.Minute).Unix()
		judge = -1
	case "other-aud":
		claims["aud"] = []string{"another-node"}
		judge = -1
	case "no-aud":
		delete(claims, "aud")
		judge = -1
	case "other-key":
		key = other
		judge = -1
	case "alg-none":
		alg = "none"
		judge = -1
	case "hs256-pub", "hs384-pub", "hs512-pub":
		alg = strings.ToUpper(kind[:5])
		judge = -1
	case "truncated":
		judge = -1
	case "rs256-right-key":
		alg = "RS256"
		judge = 0 // correctly signed by the configured key with another RSA algorithm: the statement does not say
	case "no-exp":
		delete(claims, "exp")
		judge = 0 // "unexpired" is trivially true without an expiry; not asserted either way
	case "tampered-payload":
		judge = -1
	case "nbf-future":
		claims["nbf"] = now.Add(10 * time.Minute).Unix()
		judge = 0
	}
	hdr, _ := json.Marshal(map[string]string{"alg": alg, "typ": "JWT"})
	pl, _ := json.Marshal(claims)
	signing := b64(hdr) + "." + b64(pl)
	var sig []byte
	switch {
	case alg == "none":
	case strings.HasPrefix(alg, "HS"):
		var h func() hash.Hash
		switch alg {
		case "HS256":
			h = sha256.New
		case "HS384":
			h = sha512.New384
		default:
			h = sha512.New
		}
		m := hmac.New(h, pubPEM)
		m.Write([]byte(signing))
		sig = m.Sum(nil)
	default:
		hh := crypto.SHA512
		if alg == "RS256" {
			hh = crypto.SHA256
		}
		hs := hh.New()
		hs.Write([]byte(signing))
		sig, _ = rsa.SignPKCS1v15(rand.Reader, key, hh, hs.Sum(nil))
	}
	tok = signing + "." + b64(sig)
	if kind == "truncated" {
		tok = tok[:len(tok)-20]
	}
	if kind == "tampered-payload" {
		claims["aud"] = []string{node, "x"}
		pl2, _ := json.Marshal(claims)
		tok = b64(hdr) + "." + b64(pl2) + "." + b64(sig)
	}
	return tok, judge, true
}

func execC15(b []byte) vx.Verdict {
	var s C15Scn
	if err := json.Unmarshal(b, &s); err != nil {
		return vx.Inconclusive("bad scenario: %v", err)
	}
	dir, err := os.MkdirTemp("", "c15")
	if err != nil {
		return vx.Inconclusive("tempdir: %v", err)
	}
	defer os.RemoveAll(dir)
	right, other := vx.Key("c15right"), vx.Key("c15other")
	pubDER, _ := x509.MarshalPKIXPublicKey(&right.PublicKey)
	pubPEM := pem.EncodeToMemory(&pem.Block{Type: "PUBLIC KEY", Bytes: pubDER})
	pubFile := filepath.Join(dir, "verify.pem")
	_ = os.WriteFile(pubFile, pubPEM, 0o600)
	needMesh := false
	for _, t := range s.Trials {
		if t.Conn == "mesh" {
			needMesh = true
		}
	}
	m := vx.NewMesh(vx.DefaultNodeOpts())
	defer m.Close()
	n0 := m.StartNode("n0")
	var n1 *vx.Node
	if needMesh {
		n1 = m.StartNode("n1")
		m.AddLink(&vx.Link{A: "n0", B: "n1", CostA: 1, CostB: 1, Spec: vx.LinkSpec{Ordered: true}})
	}
	wn, err := NewWNode(n0.N, dir, WNodeOpts{TCP: true, MeshSvc: "control", VerifyKey: pubFile})
	if err != nil {
		return vx.Inconclusive("node: %v", err)
	}
	defer wn.Close()
	if needMesh {
		if msg := vx.WaitFor(30*time.Second, 20*time.Millisecond, func() string {
			if _, ok := n1.N.Status().RoutingTable["n0"]; !ok {
				return "no route"
			}
			if _, ok := n0.N.Status().RoutingTable["n1"]; !ok {
				return "no route back"
			}
			return ""
		}); msg != "" {
			return vx.Inconclusive("mesh: %s", msg)
		}
	}
	dial := func(kind string) (*Ctl, error) {
		switch kind {
		case "unix":
			return DialCtl("unix", wn.Sock, nil)
		case "tcp":
			return DialCtl("tcp", wn.TCPAddr, nil)
		default:
			var conn *netceptor.Conn
			var derr error
			if !vx.WithDeadline(30*time.Second, func() { conn, derr = n1.N.Dial("n0", wn.Mesh, nil) }) {
				return nil, fmt.Errorf("mesh dial blocked")
			}
			if derr != nil {
				return nil, derr
			}
			return DialCtl("", "", conn)
		}
	}
	// prepare creates a unit of the wanted type through the local Unix socket (no token is needed there)
	prepare := func(typ string, long bool) (string, error) {
		c, err := dial("unix")
		if err != nil {
			return "", err
		}
		defer c.Close()
		req := map[string]interface{}{"node": "n0", "worktype": typ}
		prog := ProdProgram{Chunks: []ProdChunk{{Len: 300, DelayMs: 0}}, Final: workceptor.WorkStateSucceeded}
		if long {
			prog = ProdProgram{Chunks: []ProdChunk{{Len: 300, DelayMs: 0}, {Len: 1, DelayMs: 600000}}, Final: workceptor.WorkStateSucceeded}
		}
		switch typ {
		case "remote-signed":
			req = map[string]interface{}{"node": "absent", "worktype": "x", "signwork": "true"}
		case "remote-plain":
			req = map[string]interface{}{"node": "absent", "worktype": "x"}
		}
		pb, _ := json.Marshal(prog)
		first, reply, err := c.Submit(req, pb, 20*time.Second)
		if err != nil || !strings.HasPrefix(first, "Work unit created") {
			return "", fmt.Errorf("prepare %s: %q %q %v", typ, first, reply, err)
		}
		id := unitIDFromFirst(first)
		if strings.HasPrefix(typ, "remote") {
			// give the remote unit something that could be read
			_ = os.WriteFile(filepath.Join(wn.DataDir, "n0", id, "stdout"), ProdBytes(0, 300), 0o600)
		}
		return id, nil
	}
	unitState := func(id string) (int, bool) {
		c, err := dial("unix")
		if err != nil {
			return -1, false
		}
		defer c.Close()
		line, err := c.Command("work status "+id, 15*time.Second)
		if err != nil || strings.HasPrefix(line, "ERROR") {
			return -1, false
		}
		var st struct{ State int }
		_ = json.Unmarshal([]byte(line), &st)
		return st.State, true
	}
	labels := []string{}
	nontrivial := false
	unconstrained := 0
	var runTrial func(ti int, t C15Trial, tok string, tj int, present bool) *vx.Verdict
	runTrialImpl := func(ti int, t C15Trial, tok string, tj int, present bool) *vx.Verdict {
		expects := t.Type == "vprod" || t.Type == "remote-signed"
		if t.Cmd != "submit" && !t.JSONForm {
			tok, tj, present = "", -1, false // the plain form has no place for a token
		}
		// reference decision
		want := 0 // +1 takes effect, -1 refused, 0 unconstrained
		switch {
		case t.Type == "unknown" || t.Type == "vprod-case":
			want = -1 // also the verifying type's name in other capitalisation: work type names are exact
		case !expects && present && tok != "":
			want = -1
		case !expects:
			want = +1
		case t.Conn == "unix":
			want = +1
		case tj > 0:
			want = +1
		case tj < 0:
			want = -1
		}
		if expects && t.Conn == "unix" && present && tok != "" && tj <= 0 {
			want = 0 // an invalid token offered on the local socket: accepted by the local-socket rule; not asserted
		}
		// set up
		var id string
		typ := t.Type
		if t.Cmd != "submit" {
			if typ == "unknown" || typ == "vprod-case" {
				typ = "prod" // a unit of an unknown type cannot be created; the command itself carries no type
				expects = false
				if present && tok != "" {
					want = -1
				} else {
					want = +1
				}
			}
			id, err = prepare(typ, t.Cmd == "cancel")
			if err != nil {
				{
					v := vx.Inconclusive("%v", err)
					return &v
				}
			}
			if t.Cmd == "results" && !strings.HasPrefix(typ, "remote") {
				// wait until the unit has finished so that results would be complete
				vx.WaitFor(10*time.Second, 20*time.Millisecond, func() string {
					if st, ok := unitState(id); ok && st == workceptor.WorkStateSucceeded {
						return ""
					}
					return "x"
				})
			}
		}
		dirsBefore := len(wn.UnitDirs())
		c, err := dial(t.Conn)
		if err != nil {
			{
				v := vx.Inconclusive("dial %s: %v", t.Conn, err)
				return &v
			}
		}
		took := false
		detail := ""
		switch t.Cmd {
		case "submit":
			req := map[string]interface{}{"node": "n0", "worktype": map[string]string{"vprod": "vprod", "prod": "prod", "unknown": "nosuchtype", "vprod-case": "VProd"}[t.Type]}
			switch t.Type {
			case "remote-signed":
				// a remote submission with signwork: the local node signs with its own key when it forwards; the command
				// itself is subject to the same rule through processSignature(workType="remote"...)
				req = map[string]interface{}{"node": "absent", "worktype": "x", "signwork": "true"}
			case "remote-plain":
				req = map[string]interface{}{"node": "absent", "worktype": "x"}
			}
			if present {
				req["signature"] = tok
			}
			pb, _ := json.Marshal(ProdProgram{Final: workceptor.WorkStateSucceeded})
			first, reply, _ := c.Submit(req, pb, 20*time.Second)
			detail = first + " / " + reply
			time.Sleep(50 * time.Millisecond)
			took = len(wn.UnitDirs()) > dirsBefore
			if strings.HasPrefix(t.Type, "remote") {
				// workType seen by processSignature is the *remote* work type name ("x"), which is not registered locally:
				// the token rule for remote submissions is applied on the executing node, so this trial only asserts
				// "a token sent to a work type that does not expect one is refused"
				if present && tok != "" {
					want = -1
				} else {
					want = +1
				}
			}
		case "cancel", "release", "force-release":
			line := ""
			if t.JSONForm {
				req := map[string]interface{}{"command": "work", "subcommand": t.Cmd, "unitid": id}
				if present {
					req["signature"] = tok
				}
				rb, _ := json.Marshal(req)
				line, _ = c.Command(string(rb), 30*time.Second)
			} else {
				line, _ = c.Command("work "+t.Cmd+" "+id, 30*time.Second)
			}
			detail = line
			time.Sleep(100 * time.Millisecond)
			st, exists := unitState(id)
			if t.Cmd == "cancel" {
				if strings.HasPrefix(typ, "remote") {
					// a pending remote unit: cancel marks it locally cancelled
					took = strings.Contains(line, "cancel")
				} else {
					took = exists && st == workceptor.WorkStateCanceled
				}
			} else {
				took = !exists
			}
		case "results":
			req := map[string]interface{}{"command": "work", "subcommand": "results", "unitid": id, "startpos": 0}
			line := ""
			if t.JSONForm {
				if present {
					req["signature"] = tok
				}
				rb, _ := json.Marshal(req)
				line, _ = c.Command(string(rb), 20*time.Second)
			} else {
				line, _ = c.Command("work results "+id, 20*time.Second)
			}
			detail = line
			if strings.HasPrefix(line, "Streaming results") {
				// any output byte counts as "read"
				data, _ := c.ReadAll(3 * time.Second)
				took = len(data) > 0
			}
		}
		c.Close()
		lbl := fmt.Sprintf("%s/%s/%s", t.Cmd, t.Conn, t.Type)
		labels = append(labels, "cmd:"+t.Cmd, "conn:"+t.Conn, "type:"+t.Type, "token:"+t.Token)
		if expects && t.Conn != "unix" {
			nontrivial = true
		}
		switch {
		case want == 0:
			unconstrained++
		case want < 0 && took:
			{
				v := vx.CertainViolation("refused-without-valid-token", "C15/took-effect:"+t.Cmd+":"+t.Token,
					"trial %d: %s with token %q (%s) TOOK EFFECT although it must be refused (work type %s expects a token: %v; connection %s); reply %q", ti, lbl, t.Token, tokenSummary(tok), t.Type, expects, t.Conn, detail)
				return &v
			}
		case want > 0 && !took:
			{
				v := vx.Violation("takes-effect-with-valid-token", "C15/refused-valid:"+t.Cmd,
					"trial %d: %s with token %q did not take effect although nothing forbids it (expects a token: %v, connection %s); reply %q", ti, lbl, t.Token, expects, t.Conn, detail)
				return &v
			}
		}
		return nil
	}
	runTrial = runTrialImpl
	for ti, t := range s.Trials {
		if t.Token == "expired-replay" {
			// the same token string is used while valid and again after it has expired
			claimsTok, _, _ := makeTokenExp("n0", right, time.Now().Add(2*time.Second))
			t1 := t
			t1.JSONForm = true
			if v := runTrial(ti, t1, claimsTok, +1, true); v != nil {
				return *v
			}
			time.Sleep(3200 * time.Millisecond)
			if v := runTrial(ti, t1, claimsTok, -1, true); v != nil {
				if v.Status == "violation" {
					v.Detail = "[the token had been accepted 3 s earlier while still valid; it expired in between] " + v.Detail
				}
				return *v
			}
			continue
		}
		tok, tj, present := makeToken(t.Token, "n0", right, other, pubPEM)
		if v := runTrial(ti, t, tok, tj, present); v != nil {
			return *v
		}
	}
	v := vx.OK(nontrivial, dedup(labels)...)
	v.Unconstrained = unconstrained
	return v
}

func init() { vx.Register("C15", execC15) }

func tokenSummary(t string) string {
	if len(t) > 40 {
		return t[:40] + "..."
	}
	return t
}

// makeTokenExp builds a correctly signed RS512 token for the node that expires at exp.
func makeTokenExp(node string, key *rsa.PrivateKey, exp time.Time) (string, int, bool) {
	hdr, _ := json.Marshal(map[string]string{"alg": "RS512", "typ": "JWT"})
	pl, _ := json.Marshal(map[string]interface{}{"exp": exp.Unix(), "aud": []string{node}})
	signing := b64(hdr) + "." + b64(pl)
	hs := crypto.SHA512.New()
	hs.Write([]byte(signing))
	sig, _ := rsa.SignPKCS1v15(rand.Reader, key, crypto.SHA512, hs.Sum(nil))
	return signing + "." + b64(sig), +1, true
}
