package workprops

import (
	"bufio"
	"encoding/json"
	"fmt"
	"io"
	"os"
	"os/exec"
	"path/filepath"
	"runtime"
	"strconv"
	"sync"
	"syscall"
	"time"

	"github.com/ansible/receptor/pkg/workceptor"

	"verifharness/vx"
)

// ---- scenario ----------------------------------------------------------------------------------------

// C14Op is one operation of a writer.
//
//	upd   : UpdateFullStatus: own counter in ExtraData[writer]++, StdoutSize++, Detail = decimal of the new StdoutSize
//	basic : UpdateBasicStatus(State, Detail-from-pool, Size) - overwrites the three basic fields (seq mode only)
//	load  : Load and check the record
//	save  : Save a self-consistent record (save mode only)
type C14Op struct {
	K     string `json:"k"`
	Pause int    `json:"p,omitempty"` // inside the callback: 0 none, 1 Gosched, 2 sleep 200us, 3 sleep 2ms
	Fresh bool   `json:"f,omitempty"` // use a blank in-memory record for this operation (as a new process would)
	State int    `json:"s,omitempty"`
	Det   int    `json:"d,omitempty"`
	Size  int    `json:"z,omitempty"`
}

type C14Writer struct {
	Proc int     `json:"proc"` // 0 = goroutine in the executor process; k>0 = helper process k
	Ops  []C14Op `json:"ops"`
}

type C14Scn struct {
	Mode    string      `json:"mode"` // conc | seq | save
	Writers []C14Writer `json:"writers"`
	Order   []int       `json:"order,omitempty"` // seq mode: which writer performs the next of its ops (mod number of writers)
}

// "" is a legitimate detail: a field set back to its zero value must be stored like any other value
var c14Details = []string{"Unit Created", "Running", "Restarting", "Finished", ""}

type c14Result struct {
	Writer   int                        `json:"w"`
	Updates  int                        `json:"u"`
	Loads    int                        `json:"l"`
	Problems []string                   `json:"problems,omitempty"`
	StartNs  int64                      `json:"start"`
	EndNs    int64                      `json:"end"`
	Rec      *workceptor.StatusFileData `json:"rec,omitempty"` // seq mode: what a load returned
}

func pause(p int) {
	switch p {
	case 1:
		runtime.Gosched()
	case 2:
		time.Sleep(200 * time.Microsecond)
	case 3:
		time.Sleep(2 * time.Millisecond)
	}
}

func counters(ed interface{}) map[string]float64 {
	out := map[string]float64{}
	m, ok := ed.(map[string]interface{})
	if !ok {
		return out
	}
	for k, v := range m {
		if f, ok := v.(float64); ok {
			out[k] = f
		}
	}
	return out
}

// checkRecord verifies the invariant every stored record satisfies in conc and save mode.
func checkRecord(r *workceptor.StatusFileData) string {
	if r.WorkType != "wt" {
		return fmt.Sprintf("WorkType is %q (field owned by the creator was wiped): %+v", r.WorkType, *r)
	}
	n, err := strconv.ParseInt(r.Detail, 10, 64)
	if err != nil || n != r.StdoutSize {
		return fmt.Sprintf("Detail %q does not match StdoutSize %d: %+v", r.Detail, r.StdoutSize, *r)
	}
	sum := 0.0
	for _, v := range counters(r.ExtraData) {
		sum += v
	}
	if int64(sum) != r.StdoutSize {
		return fmt.Sprintf("sum of per-writer counters %v != StdoutSize %d: %+v", sum, r.StdoutSize, *r)
	}
	return ""
}

// c14Actor performs operations of one writer against the file with its own in-memory record.
type c14Actor struct {
	id   int
	file string
	sfd  *workceptor.StatusFileData
	res  c14Result
	mode string
}

func (a *c14Actor) do(op C14Op) {
	sfd := a.sfd
	if op.Fresh {
		sfd = &workceptor.StatusFileData{}
	}
	key := fmt.Sprintf("w%d", a.id)
	switch op.K {
	case "upd":
		err := sfd.UpdateFullStatus(a.file, func(s *workceptor.StatusFileData) {
			pause(op.Pause)
			ed, ok := s.ExtraData.(map[string]interface{})
			if !ok || ed == nil {
				ed = map[string]interface{}{}
			}
			cur, _ := ed[key].(float64)
			ed[key] = cur + 1
			s.ExtraData = ed
			s.StdoutSize++
			pause(op.Pause)
			if a.mode != "seq" {
				s.Detail = strconv.FormatInt(s.StdoutSize, 10)
			}
		})
		if err != nil {
			a.res.Problems = append(a.res.Problems, fmt.Sprintf("writer %d: UpdateFullStatus failed: %v", a.id, err))
		}
		a.res.Updates++
	case "basic":
		if err := sfd.UpdateBasicStatus(a.file, op.State%5, c14Details[op.Det%len(c14Details)], int64(op.Size%4)-1); err != nil {
			a.res.Problems = append(a.res.Problems, fmt.Sprintf("writer %d: UpdateBasicStatus failed: %v", a.id, err))
		}
	case "load":
		var rec workceptor.StatusFileData
		if a.mode == "seq" && !op.Fresh {
			// into the writer's long-lived record, as a unit object does: what it then holds must be what is stored
			if err := a.sfd.Load(a.file); err != nil {
				a.res.Problems = append(a.res.Problems, fmt.Sprintf("writer %d: Load failed (partial record?): %v", a.id, err))
			} else {
				cp := *a.sfd
				a.res.Rec = &cp
			}
			a.res.Loads++
			break
		}
		if err := rec.Load(a.file); err != nil {
			a.res.Problems = append(a.res.Problems, fmt.Sprintf("writer %d: Load failed (partial record?): %v", a.id, err))
		} else if a.mode == "seq" {
			a.res.Rec = &rec
		} else if msg := checkRecord(&rec); msg != "" {
			a.res.Problems = append(a.res.Problems, fmt.Sprintf("writer %d: Load saw an inconsistent record: %s", a.id, msg))
		}
		a.res.Loads++
	case "save":
		// a self-consistent record; counters are reset, which is what Save means (whole-record overwrite)
		z := int64(op.Size % 50)
		rec := workceptor.StatusFileData{State: 1, Detail: strconv.FormatInt(z, 10), StdoutSize: z, WorkType: "wt", ExtraData: map[string]interface{}{"saved": float64(z)}}
		if err := rec.Save(a.file); err != nil {
			a.res.Problems = append(a.res.Problems, fmt.Sprintf("writer %d: Save failed: %v", a.id, err))
		}
	}
}

// ---- helper process: line protocol --------------------------------------------------------------------

type c14HelperReq struct {
	File    string  `json:"file"`
	Writer  int     `json:"writer"`
	Mode    string  `json:"mode"`
	Ops     []C14Op `json:"ops"`
	StartNs int64   `json:"startAt"`
}

// execC14Helper is the executor run inside helper processes (VX_EXEC=C14.helper): one request per line.
func execC14Helper(b []byte) vx.Verdict {
	var rq c14HelperReq
	if err := json.Unmarshal(b, &rq); err != nil {
		return vx.Inconclusive("bad request: %v", err)
	}
	helperMu.Lock()
	a := helperActors[rq.Writer]
	if a == nil || a.file != rq.File {
		a = &c14Actor{id: rq.Writer, file: rq.File, sfd: &workceptor.StatusFileData{}, mode: rq.Mode}
		helperActors[rq.Writer] = a
	}
	helperMu.Unlock()
	a.res = c14Result{Writer: rq.Writer}
	if d := time.Until(time.Unix(0, rq.StartNs)); rq.StartNs > 0 && d > 0 {
		time.Sleep(d)
	}
	a.res.StartNs = time.Now().UnixNano()
	for _, op := range rq.Ops {
		a.do(op)
	}
	a.res.EndNs = time.Now().UnixNano()
	rb, _ := json.Marshal(a.res)
	return vx.Verdict{Status: "ok", Detail: string(rb)}
}

var (
	helperMu     sync.Mutex
	helperActors = map[int]*c14Actor{}
)

type helperProc struct {
	cmd *exec.Cmd
	in  io.WriteCloser
	out *bufio.Reader
}

func startHelper() (*helperProc, error) {
	exe, err := os.Executable()
	if err != nil {
		return nil, err
	}
	cmd := exec.Command(exe, "-test.run=^$")
	cmd.Env = append(os.Environ(), "VX_EXEC=C14.helper")
	cmd.SysProcAttr = &syscall.SysProcAttr{Pdeathsig: syscall.SIGKILL}
	in, _ := cmd.StdinPipe()
	out, _ := cmd.StdoutPipe()
	cmd.Stderr = os.Stderr
	if err := cmd.Start(); err != nil {
		return nil, err
	}
	return &helperProc{cmd: cmd, in: in, out: bufio.NewReaderSize(out, 1<<20)}, nil
}

func (h *helperProc) call(rq c14HelperReq) (c14Result, error) {
	b, _ := json.Marshal(rq)
	if _, err := h.in.Write(append(b, '\n')); err != nil {
		return c14Result{}, err
	}
	for {
		line, err := h.out.ReadBytes('\n')
		if err != nil {
			return c14Result{}, fmt.Errorf("helper died: %v", err)
		}
		const pfx = "VX-VERDICT "
		if len(line) > len(pfx) && string(line[:len(pfx)]) == pfx {
			var v vx.Verdict
			if err := json.Unmarshal(line[len(pfx):], &v); err != nil {
				return c14Result{}, err
			}
			var r c14Result
			if err := json.Unmarshal([]byte(v.Detail), &r); err != nil {
				return c14Result{}, fmt.Errorf("helper verdict %s: %v", v.Status, v.Detail)
			}
			return r, nil
		}
	}
}

func (h *helperProc) stop() {
	h.in.Close()
	done := make(chan struct{})
	go func() { _ = h.cmd.Wait(); close(done) }()
	select {
	case <-done:
	case <-time.After(2 * time.Second):
		_ = h.cmd.Process.Kill()
		<-done
	}
}

// ---- executor ---------------------------------------------------------------------------------------

func execC14(b []byte) vx.Verdict {
	var s C14Scn
	if err := json.Unmarshal(b, &s); err != nil {
		return vx.Inconclusive("bad scenario: %v", err)
	}
	dir, err := os.MkdirTemp("", "c14")
	if err != nil {
		return vx.Inconclusive("tempdir: %v", err)
	}
	defer os.RemoveAll(dir)
	file := filepath.Join(dir, "status")
	init := workceptor.StatusFileData{State: 0, Detail: "0", StdoutSize: 0, WorkType: "wt", ExtraData: map[string]interface{}{}}
	if s.Mode == "seq" {
		init.Detail = "Unit Created"
	}
	if err := init.Save(file); err != nil {
		return vx.Inconclusive("initial save: %v", err)
	}
	helpers := map[int]*helperProc{}
	defer func() {
		for _, h := range helpers {
			h.stop()
		}
	}()
	for _, w := range s.Writers {
		if w.Proc > 0 && helpers[w.Proc] == nil {
			h, err := startHelper()
			if err != nil {
				return vx.Inconclusive("cannot start helper: %v", err)
			}
			helpers[w.Proc] = h
		}
	}
	actors := make([]*c14Actor, len(s.Writers))
	for i := range s.Writers {
		actors[i] = &c14Actor{id: i, file: file, sfd: &workceptor.StatusFileData{}, mode: s.Mode}
	}
	nprocs := len(helpers) + 1
	labels := []string{"mode:" + s.Mode, fmt.Sprintf("writers=%d", len(s.Writers)), fmt.Sprintf("procs=%d", nprocs)}

	if s.Mode == "seq" {
		return c14Seq(s, file, actors, helpers, labels)
	}

	startAt := time.Now().Add(30 * time.Millisecond)
	if len(helpers) > 0 {
		startAt = time.Now().Add(250 * time.Millisecond)
	}
	results := make([]c14Result, len(s.Writers))
	errs := make([]error, len(s.Writers))
	var wg sync.WaitGroup
	// a helper process serves its writers one request at a time; writers sharing a helper therefore run one after the other
	byProc := map[int][]int{}
	for i, w := range s.Writers {
		byProc[w.Proc] = append(byProc[w.Proc], i)
	}
	for proc, idxs := range byProc {
		if proc == 0 {
			for _, i := range idxs {
				wg.Add(1)
				go func(i int) {
					defer wg.Done()
					a := actors[i]
					time.Sleep(time.Until(startAt))
					a.res.StartNs = time.Now().UnixNano()
					for _, op := range s.Writers[i].Ops {
						a.do(op)
					}
					a.res.EndNs = time.Now().UnixNano()
					a.res.Writer = i
					results[i] = a.res
				}(i)
			}
			continue
		}
		wg.Add(1)
		go func(proc int, idxs []int) {
			defer wg.Done()
			for _, i := range idxs {
				r, err := helpers[proc].call(c14HelperReq{File: file, Writer: i, Mode: s.Mode, Ops: s.Writers[i].Ops, StartNs: startAt.UnixNano()})
				results[i], errs[i] = r, err
			}
		}(proc, idxs)
	}
	done := make(chan struct{})
	go func() { wg.Wait(); close(done) }()
	select {
	case <-done:
	case <-time.After(90 * time.Second):
		return vx.Violation("no-deadlock", "C14/writers-stuck", "writers did not finish within 90 s (lock never released?)")
	}
	for i, e := range errs {
		if e != nil {
			return vx.Inconclusive("helper for writer %d: %v", i, e)
		}
	}
	totalUpd := 0
	for _, r := range results {
		if len(r.Problems) > 0 {
			sig := "C14/inconsistent-read"
			if containsAny(r.Problems, "Load failed") {
				sig = "C14/partial-record"
			}
			if containsAny(r.Problems, "wiped") {
				sig = "C14/field-wiped"
			}
			if containsAny(r.Problems, "UpdateFullStatus failed", "Save failed") {
				sig = "C14/update-error"
			}
			return vx.Violation("atomic", sig, "%v", r.Problems)
		}
		totalUpd += r.Updates
	}
	var final workceptor.StatusFileData
	if err := final.Load(file); err != nil {
		return vx.Violation("atomic", "C14/partial-record", "final Load failed: %v", err)
	}
	if msg := checkRecord(&final); msg != "" {
		return vx.Violation("atomic", "C14/final-inconsistent", "final record: %s", msg)
	}
	if s.Mode == "conc" {
		if final.StdoutSize != int64(totalUpd) {
			return vx.Violation("no-lost-update", "C14/lost-update", "%d updates were applied but the record counts %d: %+v", totalUpd, final.StdoutSize, final)
		}
		c := counters(final.ExtraData)
		for i, r := range results {
			if int(c[fmt.Sprintf("w%d", i)]) != r.Updates {
				return vx.Violation("no-lost-update", "C14/lost-update", "writer %d made %d updates, its counter says %v: %+v", i, r.Updates, c[fmt.Sprintf("w%d", i)], final)
			}
		}
	}
	// overlap: at least two writers in two different processes were active at the same time
	overlap := false
	for i := range results {
		for j := i + 1; j < len(results); j++ {
			if s.Writers[i].Proc != s.Writers[j].Proc && results[i].StartNs < results[j].EndNs && results[j].StartNs < results[i].EndNs {
				overlap = true
			}
		}
	}
	if overlap {
		labels = append(labels, "cross-process-overlap")
	}
	return vx.OK(overlap && len(s.Writers) >= 2, labels...)
}

func containsAny(list []string, subs ...string) bool {
	for _, l := range list {
		for _, s := range subs {
			if len(l) >= len(s) && (stringsIndex(l, s) >= 0) {
				return true
			}
		}
	}
	return false
}

func stringsIndex(a, b string) int {
	for i := 0; i+len(b) <= len(a); i++ {
		if a[i:i+len(b)] == b {
			return i
		}
	}
	return -1
}

// c14Seq executes the writers' operations one at a time in the drawn order; the model is exact.
func c14Seq(s C14Scn, file string, actors []*c14Actor, helpers map[int]*helperProc, labels []string) vx.Verdict {
	model := workceptor.StatusFileData{State: 0, Detail: "Unit Created", StdoutSize: 0, WorkType: "wt"}
	mc := map[string]float64{}
	pos := make([]int, len(s.Writers))
	lastBasic := map[int]string{}
	repeatAfterForeign := false
	foreignSince := map[int]bool{}
	run := func(i int, op C14Op) (c14Result, error) {
		if s.Writers[i].Proc == 0 {
			actors[i].res = c14Result{}
			actors[i].do(op)
			return actors[i].res, nil
		}
		return helpers[s.Writers[i].Proc].call(c14HelperReq{File: file, Writer: i, Mode: "seq", Ops: []C14Op{op}})
	}
	steps := 0
	for _, o := range s.Order {
		if len(s.Writers) == 0 {
			break
		}
		i := o % len(s.Writers)
		if pos[i] >= len(s.Writers[i].Ops) {
			continue
		}
		op := s.Writers[i].Ops[pos[i]]
		pos[i]++
		steps++
		res, err := run(i, op)
		if err != nil {
			return vx.Inconclusive("helper: %v", err)
		}
		if len(res.Problems) > 0 {
			return vx.Violation("atomic", "C14/seq-op-failed", "step %d writer %d op %+v: %v", steps, i, op, res.Problems)
		}
		switch op.K {
		case "upd":
			mc[fmt.Sprintf("w%d", i)]++
			model.StdoutSize++
		case "basic":
			model.State = op.State % 5
			model.Detail = c14Details[op.Det%len(c14Details)]
			if z := int64(op.Size%4) - 1; z >= 0 {
				model.StdoutSize = z
			}
			sigOp := fmt.Sprintf("%d/%d/%d", op.State%5, op.Det%len(c14Details), op.Size%4)
			if lastBasic[i] == sigOp && foreignSince[i] && !op.Fresh {
				repeatAfterForeign = true
			}
			lastBasic[i] = sigOp
		}
		if op.K != "load" {
			for j := range s.Writers {
				if j != i {
					foreignSince[j] = true
				}
			}
			foreignSince[i] = false
		}
		// after every step the stored record equals the model (checked through an independent plain read)
		raw, err := os.ReadFile(file)
		if err != nil {
			return vx.Inconclusive("read status: %v", err)
		}
		var got workceptor.StatusFileData
		if err := json.Unmarshal(raw, &got); err != nil {
			return vx.Violation("atomic", "C14/partial-record", "step %d: stored record does not parse: %q", steps, raw)
		}
		gc := counters(got.ExtraData)
		same := got.State == model.State && got.Detail == model.Detail && got.StdoutSize == model.StdoutSize && got.WorkType == model.WorkType && len(gc) == len(mc)
		for k, v := range mc {
			if gc[k] != v {
				same = false
			}
		}
		if !same {
			return vx.Violation("applied-to-latest", "C14/seq-update-lost", "step %d (writer %d, op %+v): stored record %s differs from the model {State:%d Detail:%q StdoutSize:%d WorkType:%q counters:%v}",
				steps, i, op, string(raw), model.State, model.Detail, model.StdoutSize, model.WorkType, mc)
		}
		if op.K == "load" && res.Rec != nil {
			if res.Rec.State != model.State || res.Rec.Detail != model.Detail || res.Rec.StdoutSize != model.StdoutSize || res.Rec.WorkType != model.WorkType {
				return vx.Violation("atomic", "C14/seq-load-differs", "step %d: Load returned %+v, model %+v", steps, *res.Rec, model)
			}
		}
	}
	if repeatAfterForeign {
		labels = append(labels, "basic-repeated-after-foreign-write")
	}
	return vx.OK(repeatAfterForeign || (steps >= 6 && len(s.Writers) >= 2), labels...)
}

func init() {
	vx.Register("C14", execC14)
	vx.Register("C14.helper", execC14Helper)
}
