package workprops

import (
	"bytes"
	"encoding/json"
	"fmt"
	"os"
	"path/filepath"
	"strings"
	"sync"
	"time"

	"github.com/ansible/receptor/pkg/workceptor"

	"verifharness/vx"
)

// ---- scenario ----------------------------------------------------------------------------------------

// C08Line is one request line of a session. Placeholders @FIN@ @RUN@ @DISK@ @GONE@ in Raw are replaced by the ID of a
// finished unit, a running unit, a unit directory that exists only on disk, and a released unit.
type C08Line struct {
	Raw     []byte `json:"raw"`
	Rep     int    `json:"rep,omitempty"` // Raw repeated (over-long lines)
	Expect  string `json:"expect"`        // error: must be answered by a line starting with ERROR | any: some answer | none: no answer expected (empty line) | submit | stream | drop: disconnect right after sending (no newline)
	Class   string `json:"class"`
	Payload []byte `json:"payload,omitempty"` // submit: stdin data
}

type C08Session struct {
	Conn  string    `json:"conn"` // unix | tcp
	Lines []C08Line `json:"lines"`
}

type C08Scn struct {
	Sessions []C08Session `json:"sessions"` // run concurrently
	Churn    int          `json:"churn"`    // meanwhile, this many submit + release cycles run on connections of their own
}

func (l C08Line) bytes(sub map[string]string) []byte {
	b := l.Raw
	if l.Rep > 1 {
		b = bytes.Repeat(l.Raw, l.Rep)
	}
	for k, v := range sub {
		b = bytes.ReplaceAll(b, []byte(k), []byte(v))
	}
	return b
}

func execC08(b []byte) vx.Verdict {
	var s C08Scn
	if err := json.Unmarshal(b, &s); err != nil {
		return vx.Inconclusive("bad scenario: %v", err)
	}
	dir, err := os.MkdirTemp("", "c08")
	if err != nil {
		return vx.Inconclusive("tempdir: %v", err)
	}
	defer os.RemoveAll(dir)
	m := vx.NewMesh(vx.DefaultNodeOpts())
	defer m.Close()
	n0 := m.StartNode("n0")
	m.StartNode("n1")
	m.AddLink(&vx.Link{A: "n0", B: "n1", CostA: 1, CostB: 1, Spec: vx.LinkSpec{Ordered: true}})
	wn, err := NewWNode(n0.N, dir, WNodeOpts{TCP: true})
	if err != nil {
		return vx.Inconclusive("node: %v", err)
	}
	defer wn.Close()
	vx.WaitFor(20*time.Second, 20*time.Millisecond, func() string {
		if _, ok := n0.N.Status().RoutingTable["n1"]; !ok {
			return "no route"
		}
		return ""
	})
	// ---- units the sessions can refer to
	submit := func(prog ProdProgram) (string, error) {
		c, err := DialCtl("unix", wn.Sock, nil)
		if err != nil {
			return "", err
		}
		defer c.Close()
		pb, _ := json.Marshal(prog)
		first, reply, err := c.Submit(map[string]interface{}{"node": "n0", "worktype": "prod"}, pb, 20*time.Second)
		if err != nil || !strings.HasPrefix(first, "Work unit created") {
			return "", fmt.Errorf("submit: %q %q %v", first, reply, err)
		}
		return unitIDFromFirst(first), nil
	}
	fin, err := submit(ProdProgram{Chunks: []ProdChunk{{Len: 2000}}, Final: workceptor.WorkStateSucceeded})
	if err != nil {
		return vx.Inconclusive("%v", err)
	}
	run, err := submit(ProdProgram{Chunks: []ProdChunk{{Len: 10}, {Len: 1, DelayMs: 600000}}, Final: workceptor.WorkStateSucceeded})
	if err != nil {
		return vx.Inconclusive("%v", err)
	}
	gone, err := submit(ProdProgram{Final: workceptor.WorkStateSucceeded})
	if err != nil {
		return vx.Inconclusive("%v", err)
	}
	probe := func(what string) *vx.Verdict {
		c, err := DialCtl("unix", wn.Sock, nil)
		if err != nil {
			v := vx.Violation("keeps-answering", "C08/no-new-session:"+what, "%s: a fresh control connection is not greeted: %v", what, err)
			return &v
		}
		defer c.Close()
		if line, err := c.Command("status", 5*time.Second); err != nil || !strings.HasPrefix(line, "{") {
			v := vx.Violation("keeps-answering", "C08/status-unanswered:"+what, "%s: 'status' on a fresh connection was not answered within 5 s (%q, %v)", what, line, err)
			return &v
		}
		if line, err := c.Command("work list", 5*time.Second); err != nil || !strings.HasPrefix(line, "{") {
			v := vx.Violation("keeps-answering", "C08/work-unanswered:"+what, "%s: 'work list' on a fresh connection was not answered within 5 s (%q, %v)", what, line, err)
			return &v
		}
		return nil
	}
	vx.WaitFor(10*time.Second, 20*time.Millisecond, func() string {
		c, err := DialCtl("unix", wn.Sock, nil)
		if err != nil {
			return "dial"
		}
		defer c.Close()
		line, _ := c.Command("work status "+fin, 5*time.Second)
		if strings.Contains(line, `"State":2`) {
			return ""
		}
		return "not finished"
	})
	{
		c, err := DialCtl("unix", wn.Sock, nil)
		if err != nil {
			return vx.Inconclusive("dial: %v", err)
		}
		_, _ = c.Command("work release "+gone, 10*time.Second)
		c.Close()
	}
	// a unit directory that exists only on disk (as after a crash of the submitting session, or a copy)
	disk := "ondisk01"
	_ = os.MkdirAll(filepath.Join(wn.DataDir, "n0", disk), 0o700)
	if sb, err := os.ReadFile(filepath.Join(wn.DataDir, "n0", fin, "status")); err == nil {
		_ = os.WriteFile(filepath.Join(wn.DataDir, "n0", disk, "status"), sb, 0o600)
		_ = os.WriteFile(filepath.Join(wn.DataDir, "n0", disk, "stdout"), ProdBytes(0, 2000), 0o600)
	}
	sub := map[string]string{"@FIN@": fin, "@RUN@": run, "@DISK@": disk, "@GONE@": gone}
	if v := probe("before the sessions"); v != nil {
		return vx.Inconclusive("node not healthy before the scenario: %s", v.Detail)
	}

	var mu sync.Mutex
	var verdict *vx.Verdict
	labels := []string{fmt.Sprintf("sessions=%d", len(s.Sessions))}
	fail := func(v vx.Verdict) {
		mu.Lock()
		if verdict == nil {
			verdict = &v
		}
		mu.Unlock()
	}
	invalidSeen, validAfterInvalid := false, false
	var wg sync.WaitGroup
	for si, sess := range s.Sessions {
		wg.Add(1)
		go func(si int, sess C08Session) {
			defer wg.Done()
			network, addr := "unix", wn.Sock
			if sess.Conn == "tcp" {
				network, addr = "tcp", wn.TCPAddr
			}
			c, err := DialCtl(network, addr, nil)
			if err != nil {
				fail(vx.Violation("keeps-answering", "C08/no-new-session", "session %d: connection not greeted: %v", si, err))
				return
			}
			defer c.Close()
			sawInvalid := false
			for li, l := range sess.Lines {
				data := l.bytes(sub)
				mu.Lock()
				labels = append(labels, "class:"+l.Class)
				mu.Unlock()
				if l.Expect == "drop" {
					_ = c.Send(data)
					return // abrupt disconnect mid-line
				}
				if err := c.Send(append(append([]byte{}, data...), '\n')); err != nil {
					return // the server may have closed after an earlier terminal command
				}
				switch l.Expect {
				case "none":
					continue
				case "error", "any":
					line, err := c.ReadLine(20 * time.Second)
					if err != nil {
						fail(vx.Violation("answered", "C08/unanswered:"+l.Class, "session %d line %d (%s, %q): no answer within 20 s: %v", si, li, l.Class, trunc(data, 120), err))
						return
					}
					if l.Expect == "error" {
						sawInvalid = true
						if !strings.HasPrefix(line, "ERROR") {
							fail(vx.Violation("invalid-gets-error", "C08/no-error:"+l.Class, "session %d line %d: the invalid request %q (%s) was answered %q, not by an ERROR line", si, li, trunc(data, 160), l.Class, trunc([]byte(line), 200)))
							return
						}
					} else if sawInvalid {
						mu.Lock()
						validAfterInvalid = true
						mu.Unlock()
					}
					// a request may produce more than one line (two ERROR lines for malformed JSON): drain what is there
					for {
						if _, err := c.ReadLine(60 * time.Millisecond); err != nil {
							break
						}
					}
				case "submit":
					line, err := c.ReadLine(20 * time.Second)
					if err != nil || !strings.HasPrefix(line, "Work unit created") {
						fail(vx.Violation("answered", "C08/submit-unanswered", "session %d line %d: valid submit answered %q %v", si, li, line, err))
						return
					}
					_ = c.Send(l.Payload)
					_ = c.CloseWrite()
					if _, err := c.ReadLine(20 * time.Second); err != nil {
						fail(vx.Violation("answered", "C08/submit-unanswered", "session %d line %d: no result line after the payload: %v", si, li, err))
					}
					return
				case "stream":
					line, err := c.ReadLine(20 * time.Second)
					if err != nil {
						fail(vx.Violation("answered", "C08/results-unanswered", "session %d line %d: results request unanswered: %v", si, li, err))
						return
					}
					if strings.HasPrefix(line, "Streaming results") {
						_, _ = c.ReadAll(5 * time.Second)
						return
					}
				}
			}
			mu.Lock()
			if sawInvalid {
				invalidSeen = true
			}
			mu.Unlock()
		}(si, sess)
	}
	if s.Churn > 0 {
		wg.Add(1)
		go func() {
			defer wg.Done()
			for i := 0; i < s.Churn; i++ {
				id, err := submit(ProdProgram{Chunks: []ProdChunk{{Len: 50}}, Final: workceptor.WorkStateSucceeded})
				if err != nil {
					fail(vx.Violation("keeps-answering", "C08/churn-submit-failed", "a well-formed submission on its own session failed while other sessions were active: %v", err))
					return
				}
				c, err := DialCtl("unix", wn.Sock, nil)
				if err != nil {
					fail(vx.Violation("keeps-answering", "C08/no-new-session", "churn: %v", err))
					return
				}
				line, err := c.Command("work release "+id, 20*time.Second)
				c.Close()
				if err != nil || !strings.Contains(line, "released") {
					fail(vx.Violation("keeps-answering", "C08/churn-release-unanswered", "a well-formed 'work release %s' on its own session was answered %q (%v) while other sessions were active", id, line, err))
					return
				}
			}
		}()
		labels = append(labels, "concurrent-submit-release-churn")
	}
	if !vx.WithDeadline(300*time.Second, wg.Wait) {
		return vx.Violation("answered", "C08/sessions-stuck", "sessions did not finish within 300 s")
	}
	if verdict != nil {
		return *verdict
	}
	if v := probe("after the sessions"); v != nil {
		return *v
	}
	// the unit that only exists on disk must not have wedged anything either
	return vx.OK(invalidSeen && validAfterInvalid, dedup(labels)...)
}

func trunc(b []byte, n int) string {
	if len(b) > n {
		return string(b[:n]) + fmt.Sprintf("...(%d bytes)", len(b))
	}
	return string(b)
}

func init() { vx.Register("C08", execC08) }
