package workprops

import (
	"fmt"
	"testing"

	"pgregory.net/rapid"

	"verifharness/vx"
)

var c04Points = []string{
	"daemon:save.after_open_truncate", "daemon:save.after_write", "daemon:update.after_load", "daemon:update.after_truncate", "daemon:update.after_write",
	"daemon:allocate.after_mkdir", "daemon:allocate.after_save", "daemon:submit.after_stdin_create", "daemon:submit.after_input", "daemon:submit.after_start",
	"daemon:remote.after_remote_ack", "daemon:remote.after_unitid_saved",
	"runner:update.after_load", "runner:update.after_truncate", "runner:update.after_write", "runner:runner.before_exec", "runner:runner.after_child_exit",
}

func genC04(t *rapid.T) C04Scn {
	var s C04Scn
	kinds := []string{"cmd-short", "cmd-short", "cmd-slow", "cmd-slow", "cmd-fail", "remote-cmd", "remote-cmd", "remote-short", "remote-absent"}
	ncycles := rapid.SampledFrom([]int{1, 1, 1, 2, 3}).Draw(t, "cycles")
	for i := 0; i < ncycles; i++ {
		p := C04Phase{Index: i, GapMs: rapid.SampledFrom([]int{0, 0, 50, 300}).Draw(t, "gap")}
		nsub := rapid.IntRange(1, 4).Draw(t, "nsub")
		if i > 0 {
			nsub = rapid.IntRange(0, 2).Draw(t, "nsub-later")
		}
		for k := 0; k < nsub; k++ {
			p.Subs = append(p.Subs, rapid.SampledFrom(kinds).Draw(t, "kind"))
		}
		if rapid.IntRange(0, 4).Draw(t, "usepoint") > 0 {
			p.Crash = rapid.SampledFrom(c04Points).Draw(t, "point") + ":" + fmt.Sprint(rapid.SampledFrom([]int{1, 1, 2, 3, 5, 8}).Draw(t, "nth"))
		}
		p.KillMs = rapid.SampledFrom([]int{150, 400, 900, 1800, 3500, 6000}).Draw(t, "killms")
		if rapid.IntRange(0, 3).Draw(t, "slowrunner") == 0 {
			p.RunnerDelayMs = rapid.SampledFrom([]int{500, 800, 2500}).Draw(t, "runnerdelay")
		}
		// focus phases (one in five): histories that random draws reach too rarely -
		//  launch: a command is launched, the daemon dies right after and comes back while the (paused) runner has not reported yet,
		//          the runner then reports while the restarted daemon is listening;
		//  remote: the daemon dies at one of the points of the remote start of the history's only remote unit
		switch rapid.IntRange(0, 9).Draw(t, "focus") {
		case 0:
			p.Subs = []string{rapid.SampledFrom([]string{"cmd-slow", "cmd-short", "cmd-fail"}).Draw(t, "focus-kind")}
			p.Crash, p.KillMs, p.RunnerDelayMs = "daemon:submit.after_start:1", 3500, rapid.SampledFrom([]int{400, 500, 600}).Draw(t, "focus-delay")
		case 1:
			if i == 0 {
				p.Subs = []string{rapid.SampledFrom([]string{"remote-cmd", "remote-short"}).Draw(t, "focus-rkind")}
				if rapid.Bool().Draw(t, "focus-extra") {
					p.Subs = append(p.Subs, "cmd-short")
				}
				p.Crash, p.KillMs, p.RunnerDelayMs = rapid.SampledFrom([]string{"daemon:remote.after_unitid_saved:1", "daemon:remote.after_remote_ack:1", "daemon:submit.after_start:1", "daemon:update.after_write:6", "daemon:update.after_write:7", "daemon:update.after_write:8"}).Draw(t, "focus-rpoint"), 6000, 0
				ncycles = 1 // no further remote submissions that would blur which unit the point belonged to
			}
		}
		s.Phases = append(s.Phases, p)
	}
	s.Phases = append(s.Phases, C04Phase{Index: ncycles, Final: true})
	return s
}

func TestC04(t *testing.T) {
	st := vx.NewStats("C04", "crash", "1-3 incarnations of a node (netceptor + workceptor + control service in one process, command units run by real runner processes, a second real daemon as remote executor) on one data directory: each submits 0-4 units "+
		"{short / slow / failing command, remote slow / short command, remote to an absent node} and is killed with SIGKILL either at the n-th passage of a named point (hook: between the file-system steps of creating a unit, storing input, rewriting the status record "+
		"in daemon or runner, remote start) or after a drawn time; what clients were told (acknowledged IDs, finished states and sizes, remote unit IDs) is journalled with fsync; a final incarnation is judged: 'work list' answers within 5 s, every acknowledged "+
		"unit is listed with its work type and remote binding, finished units report the same state/size and their exact output, running commands reach their final state with complete output, never-started ones are reported failed; "+
		"non-trivial = >= 1 kill after >= 1 acknowledgement; distinct by canonical JSON")
	defer st.Flush()
	r := &vx.Runner{Name: "C04.driver", InProc: true}
	rapid.Check(t, func(t *rapid.T) {
		s := genC04(t)
		st.Judge(t, s, r.Run(s))
	})
}
