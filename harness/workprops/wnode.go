package workprops

import (
	"bufio"
	"context"
	"crypto/tls"
	"encoding/json"
	"fmt"
	"io"
	"net"
	"os"
	"path/filepath"
	"strings"
	"sync"
	"time"

	"github.com/ansible/receptor/pkg/controlsvc"
	"github.com/ansible/receptor/pkg/netceptor"
	"github.com/ansible/receptor/pkg/workceptor"

	"verifharness/vx"
)

// ---- prod unit: an in-process work type built on the public BaseWorkUnit API -----------------------------------

// ProdChunk is one write of the producer.
type ProdChunk struct {
	Len     int `json:"len"`
	DelayMs int `json:"delay_ms"`
}

// ProdProgram is what the unit reads from its stdin file.
type ProdProgram struct {
	Chunks []ProdChunk `json:"chunks"`
	Final  int         `json:"final"`  // workceptor.WorkStateSucceeded or WorkStateFailed
	EndMs  int         `json:"end_ms"` // pause between the last write and the final status
}

// ProdByte is byte i of every prod unit's output (so any suffix can be checked without storing it).
func ProdByte(i int64) byte { return byte(i*151 + (i>>8)*13 + (i >> 16)) }

func ProdBytes(from, to int64) []byte {
	b := make([]byte, to-from)
	for i := range b {
		b[i] = ProdByte(from + int64(i))
	}
	return b
}

type ProdUnit struct {
	workceptor.BaseWorkUnit
	startOnce sync.Once
	stopped   chan struct{} // closed when the producer goroutine has ended (nil if it never started)
}

func NewProdUnit(_ workceptor.BaseWorkUnitForWorkUnit, w *workceptor.Workceptor, unitID string, workType string) workceptor.WorkUnit {
	u := &ProdUnit{}
	u.BaseWorkUnit.Init(w, unitID, workType, workceptor.FileSystem{}, nil)
	return u
}

func (u *ProdUnit) Start() error {
	b, err := os.ReadFile(filepath.Join(u.UnitDir(), "stdin"))
	if err != nil {
		return err
	}
	var prog ProdProgram
	if err := json.Unmarshal(b, &prog); err != nil {
		// not a programme: produce nothing and succeed at once
		prog = ProdProgram{Final: workceptor.WorkStateSucceeded}
	}
	if prog.Final != workceptor.WorkStateFailed {
		prog.Final = workceptor.WorkStateSucceeded
	}
	u.UpdateBasicStatus(workceptor.WorkStateRunning, "Running", 0)
	go u.MonitorLocalStatus()
	u.stopped = make(chan struct{})
	go func() {
		defer close(u.stopped)
		u.run(prog)
	}()
	return nil
}

// stopProducer cancels the producer and waits (bounded) until it no longer touches the unit directory.
func (u *ProdUnit) stopProducer() {
	u.GetCancel()()
	if u.stopped != nil {
		select {
		case <-u.stopped:
		case <-time.After(5 * time.Second):
		}
	}
}

// Release implies Cancel, as for every real work type: nothing may write into the directory while it is removed.
func (u *ProdUnit) Release(force bool) error {
	u.stopProducer()
	return u.BaseWorkUnit.Release(force)
}

func (u *ProdUnit) run(prog ProdProgram) {
	sw, err := workceptor.NewStdoutWriter(workceptor.FileSystem{}, u.UnitDir())
	if err != nil {
		u.UpdateBasicStatus(workceptor.WorkStateFailed, err.Error(), 0)
		return
	}
	var off int64
	ctx := u.GetContext()
	for _, c := range prog.Chunks {
		select {
		case <-ctx.Done():
			return
		case <-time.After(time.Duration(c.DelayMs) * time.Millisecond):
		}
		if c.Len > 0 {
			if _, err := sw.Write(ProdBytes(off, off+int64(c.Len))); err != nil {
				u.UpdateBasicStatus(workceptor.WorkStateFailed, err.Error(), off)
				return
			}
			off += int64(c.Len)
		}
	}
	select {
	case <-ctx.Done():
		return
	case <-time.After(time.Duration(prog.EndMs) * time.Millisecond):
	}
	u.UpdateBasicStatus(prog.Final, "Finished", off)
}

func (u *ProdUnit) Restart() error {
	if err := u.Load(); err != nil {
		return err
	}
	st := u.Status()
	if !workceptor.IsComplete(st.State) && st.State != workceptor.WorkStateCanceled {
		u.UpdateBasicStatus(workceptor.WorkStateFailed, "Interrupted by restart", -1)
	}
	return nil
}

func (u *ProdUnit) Cancel() error {
	u.stopProducer()
	st := u.Status()
	if !workceptor.IsComplete(st.State) {
		u.UpdateBasicStatus(workceptor.WorkStateCanceled, "Canceled", -1)
	}
	return nil
}

// ---- a node with netceptor + workceptor + control service ------------------------------------------------------

type WNode struct {
	ID      string
	N       *netceptor.Netceptor
	W       *workceptor.Workceptor
	CS      *controlsvc.Server
	DataDir string
	Sock    string
	TCPAddr string
	Mesh    string // service name of the control service on the mesh ("" none)

	ctx       context.Context
	cancel    context.CancelFunc
	wcancel   context.CancelFunc
	sockN     int
	VerifyKey string
	SignKey   string
	meshTLS   *tls.Config
}

// WNodeOpts selects what the node offers.
type WNodeOpts struct {
	TCP       bool
	MeshSvc   string
	VerifyKey string // path of the public key PEM used to verify signatures
	SignKey   string
	MeshTLS   *tls.Config // TLS configuration of the control service on the mesh (nil: none)
}

// NewWNode starts workceptor and a control service on an existing netceptor node.
func NewWNode(n *netceptor.Netceptor, baseDir string, o WNodeOpts) (*WNode, error) {
	ctx, cancel := context.WithCancel(context.Background())
	wn := &WNode{ID: n.NodeID(), N: n, DataDir: filepath.Join(baseDir, "data"), ctx: ctx, cancel: cancel, Mesh: o.MeshSvc, VerifyKey: o.VerifyKey, SignKey: o.SignKey, meshTLS: o.MeshTLS}
	if err := os.MkdirAll(wn.DataDir, 0o700); err != nil {
		return nil, err
	}
	if err := wn.startWork(baseDir, o.TCP); err != nil {
		cancel()
		return nil, err
	}
	return wn, nil
}

func (wn *WNode) startWork(baseDir string, tcp bool) error {
	wctx, wcancel := context.WithCancel(wn.ctx)
	w, err := workceptor.New(wctx, wn.N, wn.DataDir)
	if err != nil {
		wcancel()
		return err
	}
	w.VerifyingKey = wn.VerifyKey
	w.SigningKey = wn.SignKey
	if err := w.RegisterWorker("prod", NewProdUnit, false); err != nil {
		wcancel()
		return err
	}
	if err := w.RegisterWorker("vprod", NewProdUnit, true); err != nil {
		wcancel()
		return err
	}
	cs := controlsvc.New(true, wn.N)
	if err := w.RegisterWithControlService(cs); err != nil {
		wcancel()
		return err
	}
	wn.sockN++
	sock := filepath.Join(baseDir, fmt.Sprintf("ctl%d.sock", wn.sockN))
	tcpAddr := ""
	if tcp {
		l, err := net.Listen("tcp", "127.0.0.1:0")
		if err != nil {
			wcancel()
			return err
		}
		tcpAddr = l.Addr().String()
		l.Close()
	}
	mesh := wn.Mesh
	if wn.sockN > 1 && mesh != "" {
		mesh = fmt.Sprintf("%s%d", wn.Mesh, wn.sockN) // a fresh service name after a restart (see C17 on re-listening)
	}
	if err := cs.RunControlSvc(wctx, mesh, wn.meshTLS, sock, 0o600, tcpAddr, nil); err != nil {
		wcancel()
		return err
	}
	wn.W, wn.CS, wn.Sock, wn.TCPAddr, wn.wcancel = w, cs, sock, tcpAddr, wcancel
	if mesh != "" {
		wn.Mesh = mesh
	}
	return nil
}

// RestartWork throws the workceptor and control service away and starts new ones on the same data directory, as a
// daemon restart does for everything the work subsystem keeps in memory.
func (wn *WNode) RestartWork(baseDir string) error {
	// the old instance's unit objects and their goroutines cannot be stopped from outside; after a real restart they would not
	// exist, so they are at least kept from writing status records (hook VerifMarkDead)
	workceptor.VerifMarkDead(wn.W)
	wn.wcancel()
	time.Sleep(50 * time.Millisecond)
	return wn.startWork(baseDir, wn.TCPAddr != "")
}

func (wn *WNode) Close() {
	wn.cancel()
}

// UnitDirs lists the unit directories on disk.
func (wn *WNode) UnitDirs() []string {
	ents, _ := os.ReadDir(filepath.Join(wn.DataDir, wn.ID))
	var out []string
	for _, e := range ents {
		if e.IsDir() {
			out = append(out, e.Name())
		}
	}
	return out
}

// ---- control client --------------------------------------------------------------------------------------------

type Ctl struct {
	c   net.Conn
	r   *bufio.Reader
	All []byte // every byte received on this connection
	mu  sync.Mutex
}

type teeReader struct {
	r   io.Reader
	ctl *Ctl
}

func (t teeReader) Read(p []byte) (int, error) {
	n, err := t.r.Read(p)
	if n > 0 {
		t.ctl.mu.Lock()
		t.ctl.All = append(t.ctl.All, p[:n]...)
		t.ctl.mu.Unlock()
	}
	return n, err
}

// DialCtl connects ("unix", path) / ("tcp", addr) or wraps an existing conn, and consumes the greeting line.
func DialCtl(network, addr string, existing net.Conn) (*Ctl, error) {
	var c net.Conn
	var err error
	if existing != nil {
		c = existing
	} else {
		c, err = net.DialTimeout(network, addr, 10*time.Second)
		if err != nil {
			return nil, err
		}
	}
	ctl := &Ctl{c: c}
	ctl.r = bufio.NewReaderSize(teeReader{c, ctl}, 1<<16)
	line, err := ctl.ReadLine(15 * time.Second)
	if err != nil {
		c.Close()
		return nil, fmt.Errorf("no greeting: %v", err)
	}
	if !strings.HasPrefix(line, "Receptor Control, node ") {
		c.Close()
		return nil, fmt.Errorf("unexpected greeting %q", line)
	}
	return ctl, nil
}

func (c *Ctl) Close() { c.c.Close() }

func (c *Ctl) Send(b []byte) error {
	_ = c.c.SetWriteDeadline(time.Now().Add(20 * time.Second))
	_, err := c.c.Write(b)
	return err
}

func (c *Ctl) ReadLine(d time.Duration) (string, error) {
	_ = c.c.SetReadDeadline(time.Now().Add(d))
	line, err := c.r.ReadString('\n')
	return strings.TrimRight(line, "\r\n"), err
}

// ReadAll reads until EOF or deadline; returns what was read.
func (c *Ctl) ReadAll(d time.Duration) ([]byte, error) {
	_ = c.c.SetReadDeadline(time.Now().Add(d))
	return io.ReadAll(c.r)
}

func (c *Ctl) CloseWrite() error {
	type cw interface{ CloseWrite() error }
	if x, ok := c.c.(cw); ok {
		return x.CloseWrite()
	}
	if x, ok := c.c.(*netceptor.Conn); ok {
		return x.Close() // half-close on mesh streams
	}
	return fmt.Errorf("connection cannot half-close")
}

func (c *Ctl) Received() []byte {
	c.mu.Lock()
	defer c.mu.Unlock()
	return append([]byte{}, c.All...)
}

// Command sends one line and returns the first reply line.
func (c *Ctl) Command(line string, d time.Duration) (string, error) {
	if err := c.Send([]byte(line + "\n")); err != nil {
		return "", err
	}
	return c.ReadLine(d)
}

// Submit performs a JSON work submit: request, payload, EOF, reply. The connection is used up afterwards.
func (c *Ctl) Submit(req map[string]interface{}, payload []byte, d time.Duration) (first string, reply string, err error) {
	req["command"] = "work"
	req["subcommand"] = "submit"
	b, _ := json.Marshal(req)
	first, err = c.Command(string(b), d)
	if err != nil || !strings.HasPrefix(first, "Work unit created with ID") {
		return first, "", err
	}
	if err = c.Send(payload); err != nil {
		return first, "", err
	}
	if err = c.CloseWrite(); err != nil {
		return first, "", err
	}
	reply, err = c.ReadLine(d)
	return first, reply, err
}

func unitIDFromFirst(first string) string {
	// "Work unit created with ID <id>. Send stdin data and EOF."
	s := strings.TrimPrefix(first, "Work unit created with ID ")
	if i := strings.Index(s, "."); i > 0 {
		return s[:i]
	}
	return ""
}

var _ = vx.Debugf
