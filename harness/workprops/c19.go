package workprops

import (
	"bytes"
	"context"
	"crypto/tls"
	"crypto/x509"
	"encoding/json"
	"fmt"
	"github.com/ansible/receptor/pkg/certificates"
	"os"
	"path/filepath"
	"strings"
	"sync"
	"time"

	"github.com/ansible/receptor/pkg/netceptor"

	"verifharness/vx"
)

// ---- scenario ----------------------------------------------------------------------------------------

type C19Param struct {
	Key string `json:"k"`
	Val string `json:"v"`
}

type C19Scn struct {
	Params []C19Param `json:"params"`
	TLS    bool       `json:"tls"` // the submission names a TLS client profile
	Ops    []string   `json:"ops"` // status | statusjson | list | listid | cancel | release | restart
	// Remote: "" = the target node does not exist (the unit stays pending); "refuse" = a real second node with a TLS control
	// service is reachable and refuses the submission (work type unknown there): its answer travels back in an error text
	Remote string `json:"remote,omitempty"`
}

var (
	c19TLSOnce              sync.Once
	c19ServerCfg, c19CliCfg *tls.Config
	c19TLSErr               error
)

// c19TLS: a CA, a server certificate for node n1 (receptor name n1) and a client profile that trusts the CA; made once.
func c19TLS() (*tls.Config, *tls.Config, error) {
	c19TLSOnce.Do(func() {
		ca, err := certificates.CreateCA(&certificates.CertOptions{CommonName: "c19 ca", Bits: 2048}, &certificates.RsaWrapper{})
		if err != nil {
			c19TLSErr = err
			return
		}
		req, key, err := certificates.CreateCertReqWithKey(&certificates.CertOptions{CommonName: "n1", Bits: 2048, CertNames: certificates.CertNames{NodeIDs: []string{"n1"}}})
		if err != nil {
			c19TLSErr = err
			return
		}
		cert, err := certificates.SignCertReq(req, ca, &certificates.CertOptions{})
		if err != nil {
			c19TLSErr = err
			return
		}
		pool := x509.NewCertPool()
		pool.AddCert(ca.Certificate)
		c19ServerCfg = &tls.Config{Certificates: []tls.Certificate{{Certificate: [][]byte{cert.Raw}, PrivateKey: key}}, MinVersion: tls.VersionTLS12}
		c19CliCfg = &tls.Config{RootCAs: pool, MinVersion: tls.VersionTLS12}
	})
	return c19ServerCfg, c19CliCfg, c19TLSErr
}

// isSecretKey is the reference reading of "names begin with 'secret_' in any letter case" (ASCII case folding).
// Returns +1 secret, -1 not secret, 0 unconstrained (non-ASCII characters that some foldings map onto the prefix).
func isSecretKey(k string) int {
	const p = "secret_"
	if len(k) >= len(p) && strings.EqualFold(k[:len(p)], p) {
		ascii := true
		for i := 0; i < len(p); i++ {
			if k[i] >= 0x80 {
				ascii = false
			}
		}
		if ascii {
			return +1
		}
	}
	// runes such as U+017F (long s) or U+212A fold onto ASCII letters under Unicode case folding: not asserted either way
	folded := strings.ToLower(k)
	if strings.HasPrefix(folded, p) || (len([]rune(k)) >= 7 && strings.EqualFold(string([]rune(k)[:7]), p)) {
		return 0
	}
	return -1
}

func execC19(b []byte) vx.Verdict {
	var s C19Scn
	if err := json.Unmarshal(b, &s); err != nil {
		return vx.Inconclusive("bad scenario: %v", err)
	}
	dir, err := os.MkdirTemp("", "c19")
	if err != nil {
		return vx.Inconclusive("tempdir: %v", err)
	}
	defer os.RemoveAll(dir)
	ctx, cancel := context.WithCancel(context.Background())
	defer cancel()
	n := netceptor.New(ctx, "n0")
	defer n.Shutdown()
	cliCfg := &tls.Config{MinVersion: tls.VersionTLS12}
	targetNode, targetType := "absent", "prod"
	if s.Remote == "refuse" {
		srvCfg, cc, terr := c19TLS()
		if terr != nil {
			return vx.Inconclusive("tls material: %v", terr)
		}
		cliCfg = cc
		n1 := netceptor.New(ctx, "n1")
		defer n1.Shutdown()
		b0, b1 := vx.NewMemBackend(), vx.NewMemBackend()
		_ = n.AddBackend(b0)
		_ = n1.AddBackend(b1)
		pair := vx.NewSessionPair(vx.LinkSpec{Ordered: true}, nil)
		defer pair.Cut()
		if !b0.Offer(pair.A, 5*time.Second) || !b1.Offer(pair.B, 5*time.Second) {
			return vx.Inconclusive("link n0-n1 not taken")
		}
		wn1, err := NewWNode(n1, filepath.Join(dir, "b"), WNodeOpts{MeshSvc: "control", MeshTLS: srvCfg})
		if err != nil {
			return vx.Inconclusive("node n1: %v", err)
		}
		defer wn1.Close()
		if vx.WaitFor(20*time.Second, 20*time.Millisecond, func() string {
			if n.Status().RoutingTable["n1"] == "" {
				return "no route"
			}
			return ""
		}) != "" {
			return vx.Inconclusive("no route to n1")
		}
		targetNode, targetType = "n1", "nosuchtype"
	}
	_ = n.SetClientTLSConfig("tlsc", cliCfg, [][]byte{})
	wn, err := NewWNode(n, dir, WNodeOpts{})
	if err != nil {
		return vx.Inconclusive("node: %v", err)
	}
	defer wn.Close()

	var secrets, uncon []C19Param
	plain := map[string]string{}
	req := map[string]interface{}{"node": targetNode, "worktype": targetType}
	for _, p := range s.Params {
		req[p.Key] = p.Val
		switch isSecretKey(p.Key) {
		case +1:
			secrets = append(secrets, p)
		case 0:
			uncon = append(uncon, p)
		default:
			plain[p.Key] = p.Val
		}
	}
	if s.TLS {
		req["tlsclient"] = "tlsc"
	}
	labels := []string{fmt.Sprintf("secrets=%d", len(secrets)), fmt.Sprintf("tls=%v", s.TLS), "remote=" + targetNode}
	var conns []*Ctl
	leak := func(where string, data []byte) *vx.Verdict {
		for _, p := range secrets {
			if bytes.Contains(data, []byte(p.Val)) {
				v := vx.CertainViolation("secrets-never-disclosed", "C19/secret-disclosed", "the value of parameter %q appears in the bytes the control service sent (%s): ...%s...", p.Key, where, excerpt(data, []byte(p.Val)))
				return &v
			}
		}
		return nil
	}
	dial := func() (*Ctl, error) {
		c, err := DialCtl("unix", wn.Sock, nil)
		if err == nil {
			conns = append(conns, c)
		}
		return c, err
	}
	defer func() {
		for _, c := range conns {
			c.Close()
		}
	}()
	before := len(wn.UnitDirs())
	c, err := dial()
	if err != nil {
		return vx.Inconclusive("dial: %v", err)
	}
	first, reply, err := c.Submit(req, []byte("{}"), 20*time.Second)
	if v := leak("submit", c.Received()); v != nil {
		return *v
	}
	mustRefuse := len(secrets) > 0 && !s.TLS
	created := strings.HasPrefix(first, "Work unit created with ID")
	if mustRefuse {
		labels = append(labels, "secret-without-tls")
		if created || !strings.HasPrefix(first, "ERROR") {
			return vx.CertainViolation("refused-without-tls", "C19/accepted-without-tls", "a remote submission with secret parameter(s) %v and no TLS client profile was answered %q", keysOf(secrets), first)
		}
		time.Sleep(100 * time.Millisecond)
		if after := len(wn.UnitDirs()); after != before {
			return vx.CertainViolation("refused-without-tls", "C19/stored-although-refused", "the refused submission left %d unit directories behind", after-before)
		}
		return vx.OK(len(s.Params) >= 2, labels...)
	}
	if len(uncon) > 0 && !s.TLS && !created {
		// a key that only some case foldings regard as secret: refusal is acceptable
		v := vx.OK(false, append(labels, "unconstrained-key-refused")...)
		v.Unconstrained = 1
		return v
	}
	if !created || err != nil {
		return vx.Violation("submission-accepted", "C19/valid-submission-refused", "submission with params %v (tls %v) was answered %q / %q (%v)", s.Params, s.TLS, first, reply, err)
	}
	id := unitIDFromFirst(first)
	checkStatus := func(where, line string) *vx.Verdict {
		var m map[string]interface{}
		if err := json.Unmarshal([]byte(line), &m); err != nil {
			v := vx.Violation("status-answered", "C19/status-not-json", "%s: reply %q is not JSON", where, line)
			return &v
		}
		if sub, ok := m[id].(map[string]interface{}); ok {
			m = sub
		}
		ed, _ := m["ExtraData"].(map[string]interface{})
		rp, _ := ed["RemoteParams"].(map[string]interface{})
		for k, want := range plain {
			if got, ok := rp[k].(string); !ok || got != want {
				v := vx.Violation("other-params-unchanged", "C19/param-altered", "%s: non-secret parameter %q is reported as %v, submitted %q (RemoteParams %v)", where, k, rp[k], want, rp)
				return &v
			}
		}
		for k := range rp {
			if isSecretKey(k) > 0 {
				v := vx.CertainViolation("secrets-never-disclosed", "C19/secret-key-listed", "%s: secret parameter %q is listed in RemoteParams", where, k)
				return &v
			}
		}
		return nil
	}
	released := false
	restarts := 0
	for i, op := range s.Ops {
		if op == "restart" {
			if err := wn.RestartWork(dir); err != nil {
				return vx.Inconclusive("restart: %v", err)
			}
			restarts++
			labels = append(labels, "restart")
			continue
		}
		c, err := dial()
		if err != nil {
			return vx.Inconclusive("dial: %v", err)
		}
		var line string
		switch op {
		case "status":
			line, err = c.Command("work status "+id, 20*time.Second)
		case "statusjson":
			line, err = c.Command(fmt.Sprintf(`{"command":"work","subcommand":"status","unitid":%q}`, id), 20*time.Second)
		case "list":
			line, err = c.Command("work list", 20*time.Second)
		case "listid":
			line, err = c.Command("work list "+id, 20*time.Second)
		case "cancel":
			line, err = c.Command("work cancel "+id, 20*time.Second)
		case "release":
			line, err = c.Command("work force-release "+id, 20*time.Second)
		default:
			continue
		}
		if err != nil {
			return vx.Violation("status-answered", "C19/no-answer", "op %d (%s): no answer within 20 s: %v", i, op, err)
		}
		if v := leak(op, c.Received()); v != nil {
			return *v
		}
		switch op {
		case "status", "statusjson", "list", "listid":
			if released {
				continue
			}
			if strings.HasPrefix(line, "ERROR") {
				return vx.Violation("status-answered", "C19/status-error", "op %d (%s) on an existing unit answered %q", i, op, line)
			}
			if v := checkStatus(op, line); v != nil {
				return *v
			}
		case "release":
			released = true
		}
		labels = append(labels, "op:"+op)
	}
	upper := false
	for _, p := range secrets {
		if p.Key != strings.ToLower(p.Key) {
			upper = true
		}
	}
	v := vx.OK(upper && restarts >= 1, dedup(labels)...)
	v.Unconstrained = len(uncon)
	return v
}

func keysOf(ps []C19Param) []string {
	var out []string
	for _, p := range ps {
		out = append(out, p.Key)
	}
	return out
}

func excerpt(data, needle []byte) string {
	i := bytes.Index(data, needle)
	lo, hi := i-60, i+len(needle)+20
	if lo < 0 {
		lo = 0
	}
	if hi > len(data) {
		hi = len(data)
	}
	return string(data[lo:hi])
}

func dedup(in []string) []string {
	seen := map[string]bool{}
	var out []string
	for _, x := range in {
		if !seen[x] {
			seen[x] = true
			out = append(out, x)
		}
	}
	return out
}

func init() { vx.Register("C19", execC19) }
