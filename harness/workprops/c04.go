package workprops

import (
	"bytes"
	"context"
	"encoding/json"
	"fmt"
	"net"
	"os"
	"os/exec"
	"path/filepath"
	"strconv"
	"strings"
	"sync"
	"syscall"
	"time"

	"github.com/ansible/receptor/pkg/backends"
	"github.com/ansible/receptor/pkg/logger"
	"github.com/ansible/receptor/pkg/netceptor"
	"github.com/ansible/receptor/pkg/workceptor"

	"verifharness/vx"
)

// ---- scenario ----------------------------------------------------------------------------------------

// C04Phase is what one incarnation of the daemon does. The driver runs the phases one after the other in fresh
// executor processes on the same data directory; every phase but the last ends with the process being killed.
type C04Phase struct {
	Dir           string   `json:"dir"`
	BAddr         string   `json:"baddr"` // TCP address of the second (remote) daemon; "" = none
	Index         int      `json:"index"`
	Final         bool     `json:"final"`                     // judge instead of crashing
	Subs          []string `json:"subs,omitempty"`            // submissions of this incarnation: cmd-short cmd-slow cmd-fail remote-cmd remote-short remote-absent
	GapMs         int      `json:"gap_ms"`                    // pause between submissions
	Crash         string   `json:"crash,omitempty"`           // "role:point:n" (hook) or ""
	KillMs        int      `json:"kill_ms"`                   // the process kills itself this long after start if the crash point was not reached
	RunnerDelayMs int      `json:"runner_delay_ms,omitempty"` // the runner pauses this long right before it starts the command (hook): widens the "launched, not yet reporting" window
}

type c04Journal struct {
	T             string `json:"t"` // ack | obs | crash
	ID            string `json:"id,omitempty"`
	Kind          string `json:"kind,omitempty"`
	State         int    `json:"state,omitempty"`
	Size          int64  `json:"size,omitempty"`
	RemoteUnit    string `json:"remote_unit,omitempty"`
	RemoteStarted bool   `json:"remote_started,omitempty"`
	Detail        string `json:"detail,omitempty"`
	Phase         int    `json:"phase"`
	Note          string `json:"note,omitempty"`
}

var c04Scripts = map[string]string{
	"cmd-short":  "echo start; seq 1 300; echo end",
	"cmd-slow":   "seq 1 100; sleep 1.5; seq 101 200",
	"cmd-fail":   "seq 1 50; exit 3",
	"remote-cmd": "seq 1 100; sleep 1; seq 101 200",
	// finishes at once on the remote node: the submitter learns "Succeeded, N bytes" before it has fetched the output
	"remote-short": "echo start; seq 1 300; echo end",
}

func c04IsRemoteCmd(kind string) bool { return kind == "remote-cmd" || kind == "remote-short" }

func seqText(a, b int) string {
	var sb strings.Builder
	for i := a; i <= b; i++ {
		fmt.Fprintf(&sb, "%d\n", i)
	}
	return sb.String()
}

func c04Output(kind string) string {
	switch kind {
	case "cmd-short", "remote-short":
		return "start\n" + seqText(1, 300) + "end\n"
	case "cmd-slow", "remote-cmd":
		return seqText(1, 200)
	case "cmd-fail":
		return seqText(1, 50)
	}
	return ""
}

func journalAppend(dir string, j c04Journal) {
	f, err := os.OpenFile(filepath.Join(dir, "journal.jsonl"), os.O_APPEND|os.O_CREATE|os.O_WRONLY, 0o600)
	if err != nil {
		return
	}
	b, _ := json.Marshal(j)
	f.Write(append(b, '\n'))
	f.Sync()
	f.Close()
}

func journalRead(dir string) []c04Journal {
	b, _ := os.ReadFile(filepath.Join(dir, "journal.jsonl"))
	var out []c04Journal
	for _, l := range bytes.Split(b, []byte("\n")) {
		var j c04Journal
		if json.Unmarshal(l, &j) == nil && j.T != "" {
			out = append(out, j)
		}
	}
	return out
}

type c04Status struct {
	State      int
	Detail     string
	StdoutSize int64
	WorkType   string
	ExtraData  interface{}
}

func (s c04Status) extra(key string) string {
	if m, ok := s.ExtraData.(map[string]interface{}); ok {
		v, _ := m[key].(string)
		return v
	}
	return ""
}

func listUnits(sock string, d time.Duration) (map[string]c04Status, error) {
	c, err := DialCtl("unix", sock, nil)
	if err != nil {
		return nil, err
	}
	defer c.Close()
	line, err := c.Command("work list", d)
	if err != nil {
		return nil, err
	}
	if strings.HasPrefix(line, "ERROR") {
		return nil, fmt.Errorf("%s", line)
	}
	var m map[string]c04Status
	if err := json.Unmarshal([]byte(line), &m); err != nil {
		return nil, fmt.Errorf("work list reply is not JSON: %q", trunc([]byte(line), 200))
	}
	return m, nil
}

func execC04(b []byte) vx.Verdict {
	var p C04Phase
	if err := json.Unmarshal(b, &p); err != nil {
		return vx.Inconclusive("bad scenario: %v", err)
	}
	logger.SetGlobalLogLevel(logger.ErrorLevel)
	adir := filepath.Join(p.Dir, "a")
	_ = os.MkdirAll(adir, 0o700)
	os.Setenv("VERIF_CRASH_LOG", filepath.Join(p.Dir, "crash.log"))
	os.Setenv("VERIF_STATUS_LOG", filepath.Join(p.Dir, "status.log")) // evidence for the judge only (what was lost / when the runner reported)
	if p.Crash != "" && !p.Final {
		os.Setenv("VERIF_CRASH", p.Crash)
	} else {
		os.Unsetenv("VERIF_CRASH")
	}
	if p.RunnerDelayMs > 0 && !p.Final {
		os.Setenv("VERIF_DELAY", fmt.Sprintf("runner:runner.before_exec:%d", p.RunnerDelayMs))
	} else {
		os.Unsetenv("VERIF_DELAY")
	}
	if p.RunnerDelayMs > 0 && !p.Final {
		os.Setenv("VERIF_DELAY", fmt.Sprintf("runner:runner.before_exec:%d", p.RunnerDelayMs))
	} else {
		os.Unsetenv("VERIF_DELAY")
	}
	if !p.Final {
		// "killed at any instant": if the named point is not reached, die anyway
		go func() {
			time.Sleep(time.Duration(p.KillMs) * time.Millisecond)
			journalAppend(p.Dir, c04Journal{T: "crash", Phase: p.Index, Note: "timer"})
			_ = syscall.Kill(os.Getpid(), syscall.SIGKILL)
		}()
		// a runner that died at its crash point is followed by the death of the daemon
		go func() {
			for {
				time.Sleep(50 * time.Millisecond)
				if b, _ := os.ReadFile(filepath.Join(p.Dir, "crash.log")); bytes.Contains(b, []byte(" runner ")) && strings.HasPrefix(p.Crash, "runner:") {
					time.Sleep(300 * time.Millisecond)
					journalAppend(p.Dir, c04Journal{T: "crash", Phase: p.Index, Note: "after-runner-death"})
					_ = syscall.Kill(os.Getpid(), syscall.SIGKILL)
				}
			}
		}()
	}
	ctx, cancel := context.WithCancel(context.Background())
	defer cancel()
	n := netceptor.NewWithConsts(ctx, "na", 16384, 500*time.Millisecond, 500*time.Millisecond, time.Hour, 30, 10*time.Second)
	if p.BAddr != "" {
		d, err := backends.NewTCPDialer(p.BAddr, true, nil, n.Logger)
		if err == nil {
			_ = n.AddBackend(d)
		}
	}
	started := time.Now()
	wn, err := NewWNode(n, adir, WNodeOpts{})
	if err != nil {
		return vx.Inconclusive("node: %v", err)
	}
	registerCmd(wn)
	if !p.Final {
		return c04Work(p, wn, n)
	}
	return c04Judge(p, wn, n, started)
}

// c04Work performs the submissions of one incarnation and records what clients were told, until the process is killed.
func c04Work(p C04Phase, wn *WNode, n *netceptor.Netceptor) vx.Verdict {
	var mu sync.Mutex
	kinds := map[string]string{}
	for _, j := range journalRead(p.Dir) {
		if j.T == "ack" {
			kinds[j.ID] = j.Kind
		}
	}
	// observer: what a client polling "work list" is told about finished units and remote bindings
	go func() {
		seen := map[string]string{}
		for {
			time.Sleep(40 * time.Millisecond)
			m, err := listUnits(wn.Sock, 5*time.Second)
			if err != nil {
				continue
			}
			for id, st := range m {
				mu.Lock()
				_, mine := kinds[id]
				mu.Unlock()
				if !mine {
					continue
				}
				ru := st.extra("RemoteUnitID")
				rs := false
				if m, ok := st.ExtraData.(map[string]interface{}); ok {
					rs, _ = m["RemoteStarted"].(bool)
				}
				key := fmt.Sprintf("%d/%d/%s/%v", st.State, st.StdoutSize, ru, rs)
				final := st.State == workceptor.WorkStateSucceeded || st.State == workceptor.WorkStateFailed
				if (final || ru != "") && seen[id] != key {
					seen[id] = key
					j := c04Journal{T: "obs", ID: id, State: st.State, Size: st.StdoutSize, RemoteUnit: ru, RemoteStarted: rs, Detail: st.Detail, Phase: p.Index}
					if !final {
						j.State = -1
					}
					journalAppend(p.Dir, j)
				}
			}
		}
	}()
	needRemote := false
	for _, k := range p.Subs {
		if c04IsRemoteCmd(k) {
			needRemote = true
		}
	}
	if needRemote {
		vx.WaitFor(10*time.Second, 20*time.Millisecond, func() string {
			if n.Status().RoutingTable["nb"] == "" {
				return "no route"
			}
			return ""
		})
	}
	for _, kind := range p.Subs {
		c, err := DialCtl("unix", wn.Sock, nil)
		if err != nil {
			continue
		}
		req := map[string]interface{}{"node": "na", "worktype": "cmd", "params": "'" + c04Scripts[kind] + "'"}
		switch kind {
		case "remote-cmd", "remote-short":
			req["node"] = "nb"
		case "remote-absent":
			req["node"], req["params"] = "absent", "'true'"
		}
		line := ""
		{
			req["command"], req["subcommand"] = "work", "submit"
			rb, _ := json.Marshal(req)
			line, err = c.Command(string(rb), 20*time.Second)
		}
		if err == nil && strings.HasPrefix(line, "Work unit created with ID") {
			id := unitIDFromFirst(line)
			// the submitter now holds the ID: from here on the unit must survive
			journalAppend(p.Dir, c04Journal{T: "ack", ID: id, Kind: kind, Phase: p.Index})
			mu.Lock()
			kinds[id] = kind
			mu.Unlock()
			_ = c.Send([]byte{})
			_ = c.CloseWrite()
			_, _ = c.ReadLine(20 * time.Second)
		}
		c.Close()
		time.Sleep(time.Duration(p.GapMs) * time.Millisecond)
	}
	// keep running (units progress, the observer records) until the timer or the crash point kills the process
	select {}
}

var knownC04 = map[string]int{}

func c04Judge(p C04Phase, wn *WNode, n *netceptor.Netceptor, started time.Time) vx.Verdict {
	journal := journalRead(p.Dir)
	type info struct {
		kind          string
		finalState    int
		finalSize     int64
		finalSeen     bool
		remoteUnit    string
		remoteStarted bool
		finalDetail   string
	}
	units := map[string]*info{}
	var order []string
	crashes := 0
	crashNotes := []string{}
	for _, j := range journal {
		switch j.T {
		case "ack":
			units[j.ID] = &info{kind: j.Kind}
			order = append(order, j.ID)
		case "obs":
			if u := units[j.ID]; u != nil {
				if j.State >= 0 {
					u.finalSeen, u.finalState, u.finalSize, u.finalDetail = true, j.State, j.Size, j.Detail
				}
				if j.RemoteUnit != "" {
					u.remoteUnit = j.RemoteUnit
				}
				if j.RemoteStarted {
					u.remoteStarted = true
				}
			}
		case "crash":
			crashes++
			crashNotes = append(crashNotes, j.Note)
		}
	}
	hookHits, _ := os.ReadFile(filepath.Join(p.Dir, "crash.log"))
	labels := []string{fmt.Sprintf("acked=%d", len(order))}
	for _, l := range strings.Split(strings.TrimSpace(string(hookHits)), "\n") {
		if f := strings.Fields(l); len(f) == 3 {
			labels = append(labels, "crash-at:"+f[1]+":"+f[2])
		}
	}
	// a runner that outlives the daemon keeps its crash point armed and may reach it only after the restart: read the log when judging
	runnerKilledFn := func() bool {
		b, _ := os.ReadFile(filepath.Join(p.Dir, "crash.log"))
		return bytes.Contains(b, []byte(" runner "))
	}
	remoteIDSavedHit := bytes.Count(hookHits, []byte(" daemon remote.after_unitid_saved"))
	remoteCmdAcked := 0
	for _, id := range order {
		if c04IsRemoteCmd(units[id].kind) {
			remoteCmdAcked++
		}
	}
	slow := "prompt-runner"
	if p.RunnerDelayMs > 0 {
		slow = "slow-runner"
	}
	statusRecs := c04StatusLog(p.Dir)
	// which variant of "launched command abandoned at restart" a unit shows is decided by what was measured for that unit: the
	// restarted daemon keeps following only if the runner reports within its first one-second look; a runner that reports later
	// (paused by the harness, or simply slow on a busy machine) is the known finding, a runner that reported in time and is
	// not followed is not
	abandonedSigFor := func(id string) (string, string) {
		late, why := c04RunnerReportedLate(c04StatusLog(p.Dir)[id]) // read now: the runner may have reported since the judge started
		vx.Debugf("C04 unit %s: %s (outside the listening interval: %v)", id, why, late)
		_ = slow
		if late {
			return "C04/launched-command-abandoned-at-restart:slow-runner", why
		}
		return "C04/launched-command-abandoned-at-restart:prompt-runner", why
	}
	// ---- no status query blocks
	var listed map[string]c04Status
	var lerr error
	if !vx.WithDeadline(12*time.Second, func() { listed, lerr = listUnits(wn.Sock, 5*time.Second) }) || lerr != nil {
		return vx.Violation("no-query-blocks", "C04/list-blocked", "after the restart 'work list' was not answered within 5 s: %v (crash points hit: %s)", lerr, strings.TrimSpace(string(hookHits)))
	}
	for id, st := range listed {
		vx.Debugf("judge: first list: %s state=%d detail=%q type=%q size=%d", id, st.State, st.Detail, st.WorkType, st.StdoutSize)
	}
	// ---- every acknowledged unit is still listed with its identity
	for _, id := range order {
		u := units[id]
		st, ok := listed[id]
		if !ok {
			return vx.CertainViolation("acked-units-survive", "C04/unit-lost", "unit %s (%s), whose ID had been returned to the submitter, is not listed after the restart (crash points hit: %s)", id, u.kind, strings.TrimSpace(string(hookHits)))
		}
		wantType := "cmd"
		if strings.HasPrefix(u.kind, "remote") {
			wantType = "remote"
		}
		killedInRewrite := bytes.Contains(hookHits, []byte("update.after_truncate")) || bytes.Contains(hookHits, []byte("save.after_open_truncate")) ||
			c04RecordLost(statusRecs[id]) // a timed kill can land between the two steps as well: then a later update found no stored record
		if st.WorkType == "" && (strings.Contains(st.Detail, "unexpected end of JSON input") || killedInRewrite) {
			// the status record is empty: the process was killed between truncating the record and writing it again. (If the unit's
			// runner is still alive it then rebuilds a record from the empty one: state and size, but no work type.)
			sig := "C04/empty-status-record-after-kill-between-truncate-and-write"
			if vx.IsKnown("C04", sig) {
				knownC04[sig]++
				delete(units, id)
				continue
			}
			return vx.CertainViolation("acked-units-survive", sig, "unit %s (%s), whose ID had been returned to the submitter, comes back with an EMPTY status record: work type, state and (for remote work) the remote binding are gone - listed as %q/%q (crash points hit: %s)", id, u.kind, st.WorkType, st.Detail, strings.TrimSpace(string(hookHits)))
		}
		if st.WorkType != wantType {
			return vx.CertainViolation("acked-units-survive", "C04/identity-lost", "unit %s (%s) is listed with work type %q (state %d, detail %q) instead of %q after the restart (crash points hit: %s)", id, u.kind, st.WorkType, st.State, st.Detail, wantType, strings.TrimSpace(string(hookHits)))
		}
		if wantType == "remote" {
			rn, rt, ru := st.extra("RemoteNode"), st.extra("RemoteWorkType"), st.extra("RemoteUnitID")
			wantNode := map[string]string{"remote-cmd": "nb", "remote-short": "nb", "remote-absent": "absent"}[u.kind]
			if rn != wantNode || rt != "cmd" {
				return vx.CertainViolation("acked-units-survive", "C04/remote-binding-lost", "remote unit %s is bound to node %q type %q after the restart, submitted to %q type cmd", id, rn, rt, wantNode)
			}
			if c04IsRemoteCmd(u.kind) && ru == "" && remoteIDSavedHit == 1 && remoteCmdAcked == 1 {
				// the hook point right after "remote unit ID recorded" had been passed for the only remote unit of this history
				return vx.CertainViolation("acked-units-survive", "C04/remote-unit-id-not-persisted", "remote unit %s: the daemon was killed after the remote node had acknowledged the unit and after the point where its ID is recorded, but the restarted daemon knows no remote unit ID for it (the remote node keeps an orphan)", id)
			}
			if u.remoteUnit != "" && ru != u.remoteUnit {
				return vx.CertainViolation("acked-units-survive", "C04/remote-unit-id-lost", "remote unit %s had been reported bound to remote unit %q; after the restart it says %q", id, u.remoteUnit, ru)
			}
		}
		if u.finalSeen && u.finalState == workceptor.WorkStateFailed && strings.Contains(u.finalDetail, "Pending at restart") && (st.State != u.finalState || st.StdoutSize != u.finalSize) {
			// an earlier incarnation had declared the launched command "Failed (Pending at restart)"; its runner went on and
			// the record now says otherwise
			abandonedSig, why := abandonedSigFor(id)
			if vx.IsKnown("C04", abandonedSig) {
				knownC04[abandonedSig]++
				delete(units, id)
				continue
			}
			return vx.CertainViolation("finished-stays-finished", abandonedSig, "unit %s (%s) had been reported Failed (\"Pending at restart\") by an earlier incarnation although its runner was alive; it is now reported %s with %d bytes (%s)", id, u.kind, workceptor.WorkStateToString(st.State), st.StdoutSize, why)
		}
		if u.finalSeen {
			if st.State != u.finalState || st.StdoutSize != u.finalSize {
				return vx.CertainViolation("finished-stays-finished", "C04/final-state-changed", "unit %s (%s) had been reported %s with %d bytes before the crash; after the restart it is reported %s with %d bytes (%q)", id, u.kind,
					workceptor.WorkStateToString(u.finalState), u.finalSize, workceptor.WorkStateToString(st.State), st.StdoutSize, st.Detail)
			}
		}
	}
	// ---- outcomes
	unconstrained := 0
	var completed []string
	for _, id := range order {
		u := units[id]
		if u == nil || u.kind == "remote-absent" {
			continue
		}
		want := c04Output(u.kind)
		wantState := workceptor.WorkStateSucceeded
		if u.kind == "cmd-fail" {
			wantState = workceptor.WorkStateFailed
		}
		var last c04Status
		deadline := 45 * time.Second
		if c04IsRemoteCmd(u.kind) {
			deadline = 90 * time.Second
			if !u.remoteStarted {
				unconstrained++
				continue // the remote side had not confirmed the start before the crash: the work "never started" and may end up failed
			}
		}
		msg := vx.WaitFor(deadline, 100*time.Millisecond, func() string {
			m, err := listUnits(wn.Sock, 5*time.Second)
			if err != nil {
				return "work list: " + err.Error()
			}
			last = m[id]
			if last.State == workceptor.WorkStateSucceeded || last.State == workceptor.WorkStateFailed {
				return ""
			}
			return fmt.Sprintf("still %s (%q)", workceptor.WorkStateToString(last.State), last.Detail)
		})
		if msg != "" {
			if runnerKilledFn() {
				unconstrained++
				continue // the unit's runner process itself was killed: nobody is left to report for the command
			}
			if strings.HasPrefix(msg, "work list") {
				return vx.Violation("no-query-blocks", "C04/list-blocked", "%s", msg)
			}
			return vx.Violation("followed-to-completion", "C04/not-final:"+u.kind, "unit %s (%s) is %s %v after the restart: neither followed to completion nor reported failed (crash points hit: %s)", id, u.kind, msg, deadline, strings.TrimSpace(string(hookHits)))
		}
		neverStarted := last.State == workceptor.WorkStateFailed && (strings.Contains(last.Detail, "Pending at restart") || strings.Contains(last.Detail, "Failed to restart"))
		if neverStarted {
			// "never started" must be true of the stored record as well: if the unit's runner was alive after all and goes
			// on to record Running / Succeeded, the restarted daemon has to follow it
			statusFile := filepath.Join(wn.DataDir, "na", id, "status")
			diverged := ""
			for i := 0; i < 60; i++ { // 6 s: longer than the runner pause the scenario may have asked for plus the command itself
				time.Sleep(100 * time.Millisecond)
				var rec workceptor.StatusFileData
				b, err := os.ReadFile(statusFile)
				if err != nil || json.Unmarshal(b, &rec) != nil {
					continue
				}
				m, err := listUnits(wn.Sock, 5*time.Second)
				if err != nil {
					continue
				}
				if api := m[id]; rec.State != api.State && (rec.State == workceptor.WorkStateSucceeded || rec.State == workceptor.WorkStateRunning) {
					diverged = fmt.Sprintf("the stored record says %s (%q, %d bytes) while the API reports %s (%q)", workceptor.WorkStateToString(rec.State), rec.Detail, rec.StdoutSize, workceptor.WorkStateToString(api.State), api.Detail)
				} else {
					diverged = ""
				}
			}
			abandonedSig, why := abandonedSigFor(id)
			if diverged != "" && !runnerKilledFn() && vx.IsKnown("C04", abandonedSig) {
				knownC04[abandonedSig]++
				continue
			}
			if diverged != "" && !runnerKilledFn() {
				return vx.Violation("followed-to-completion", abandonedSig, "unit %s (%s): %s 6 s after the restart: the command had been launched and is not being followed (%s; crash points hit: %s)", id, u.kind, diverged, why, strings.TrimSpace(string(hookHits)))
			}
			labels = append(labels, "never-started-reported-failed")
			continue
		}
		if u.finalSeen || last.State == wantState {
			if last.State != wantState && !u.finalSeen {
				unconstrained++
				continue
			}
			// complete output can still be fetched
			res := fetchResults("unix", wn.Sock, id, 0, false, 30*time.Second)
			if !strings.HasPrefix(res.first, "Streaming results") || !res.eof || string(res.data) != want {
				if runnerKilledFn() {
					unconstrained++
					continue
				}
				return vx.Violation("output-still-fetchable", "C04/output-incomplete:"+u.kind, "unit %s (%s) is reported %s with %d bytes; 'work results' returned %q... (%d of %d bytes, closed %v)", id, u.kind,
					workceptor.WorkStateToString(last.State), last.StdoutSize, res.first, len(res.data), len(want), res.eof)
			}
			if last.StdoutSize != int64(len(want)) && !runnerKilledFn() {
				return vx.Violation("output-still-fetchable", "C04/size-wrong:"+u.kind, "unit %s (%s) finished with StdoutSize %d, its output has %d bytes", id, u.kind, last.StdoutSize, len(want))
			}
			labels = append(labels, "completed:"+u.kind)
			completed = append(completed, id)
		} else {
			unconstrained++
		}
	}
	// ---- it stays that way: the restarted daemon's own monitors (for remote work they start once the remote node is reachable
	// again) must leave finished units as they are - same state, same size, same bytes
	if len(completed) > 0 {
		anyRemote := false
		for _, id := range completed {
			anyRemote = anyRemote || c04IsRemoteCmd(units[id].kind)
		}
		if anyRemote {
			vx.WaitFor(10*time.Second, 50*time.Millisecond, func() string {
				if n.Status().RoutingTable["nb"] == "" {
					return "no route"
				}
				return ""
			})
			time.Sleep(2500 * time.Millisecond) // connect retry 1 s + monitor poll 1 s
		} else {
			time.Sleep(300 * time.Millisecond)
		}
		again, err := listUnits(wn.Sock, 5*time.Second)
		if err != nil {
			return vx.Violation("no-query-blocks", "C04/list-blocked", "second 'work list': %v", err)
		}
		for _, id := range completed {
			u, st := units[id], again[id]
			want := c04Output(u.kind)
			if !(st.State == workceptor.WorkStateSucceeded || st.State == workceptor.WorkStateFailed) || (st.StdoutSize != int64(len(want)) && !runnerKilledFn()) {
				return vx.CertainViolation("finished-stays-finished", "C04/final-state-changed-later:"+u.kind, "unit %s (%s) had reached its final state with %d bytes after the restart; a few seconds later it is reported %s with %d bytes (%q)", id, u.kind, len(want), workceptor.WorkStateToString(st.State), st.StdoutSize, st.Detail)
			}
			res := fetchResults("unix", wn.Sock, id, 0, false, 30*time.Second)
			if string(res.data) != want || !res.eof {
				return vx.CertainViolation("output-still-fetchable", "C04/output-changed-later:"+u.kind, "unit %s (%s): complete output (%d bytes) was fetched right after the restart; a few seconds later 'work results' returns %d bytes (closed %v), first difference at %d", id, u.kind, len(want), len(res.data), res.eof, firstDiff(res.data, []byte(want)))
			}
		}
		labels = append(labels, "rechecked-later")
	}
	v := vx.OK(crashes >= 1 && len(order) >= 1, dedup(labels)...)
	v.Unconstrained = unconstrained
	for k, n := range knownC04 {
		v.Labels = append(v.Labels, "known:"+k)
		v.Notes = append(v.Notes, fmt.Sprintf("known finding observed: %s x%d", k, n))
	}
	knownC04 = map[string]int{}
	_ = crashNotes
	_ = started
	return v
}

// c04StatusRec is one line of the hooked status-write log (see verif_hooks.go in receptor).
type c04StatusRec struct {
	pid      int
	oldState int
	newState int
	t        int64
	detail   string
}

// c04StatusLog returns, per unit ID, the rewrites of its status record in the order they happened (the hook runs under the
// status file lock). Used only to tell apart WHY a unit looks the way it does after the restart, never as an oracle of its own.
func c04StatusLog(dir string) map[string][]c04StatusRec {
	out := map[string][]c04StatusRec{}
	b, err := os.ReadFile(filepath.Join(dir, "status.log"))
	if err != nil {
		return out
	}
	for _, line := range strings.Split(string(b), "\n") {
		f := strings.SplitN(line, " ", 8)
		if len(f) < 8 {
			continue
		}
		var r c04StatusRec
		r.pid, _ = strconv.Atoi(f[0])
		r.oldState, _ = strconv.Atoi(f[2])
		r.newState, _ = strconv.Atoi(f[4])
		r.t, _ = strconv.ParseInt(f[6], 10, 64)
		r.detail = f[7]
		id := filepath.Base(filepath.Dir(f[1]))
		out[id] = append(out[id], r)
	}
	return out
}

// recordLost: some update of this unit's record found NO stored record although one had been written before, i.e. the file had
// been emptied by a process that died between truncating and rewriting it.
func c04RecordLost(recs []c04StatusRec) bool {
	for i, r := range recs {
		if i > 0 && r.oldState == -2 {
			return true
		}
	}
	return false
}

// runnerReportedLate: the restarted daemon declared the unit "Pending at restart" and the unit's runner (another process) made
// its next report more than 0.9 s later (or never): MonitorLocalStatus has by then taken its first one-second look and stopped.
func c04RunnerReportedLate(recs []c04StatusRec) (bool, string) {
	for i, r := range recs {
		if !strings.Contains(r.detail, "Pending at restart") {
			continue
		}
		if r.pid != os.Getpid() {
			// the incarnation that declared the unit failed was itself killed later: whether it was still alive and listening when
			// the runner reported cannot be told; the incarnation judged here found a final state and does not monitor at all
			return true, "the verdict was written by an earlier incarnation that was killed in turn"
		}
		for _, n := range recs[i+1:] {
			if n.pid != r.pid {
				d := time.Duration(n.t - r.t)
				// the restarted daemon's monitor is certainly listening from shortly after the verdict (watch registered) until
				// its first one-second look; a report outside that interval is not picked up - that is the known finding
				outside := d < 150*time.Millisecond || d > 800*time.Millisecond
				return outside, fmt.Sprintf("runner reported %v after the restarted daemon's verdict", d.Round(time.Millisecond))
			}
		}
		return true, "runner did not report after the restarted daemon's verdict"
	}
	return false, "no 'Pending at restart' record"
}

type C04Scn struct {
	Phases []C04Phase `json:"phases"` // the last one judges
}

// startRemoteDaemon runs a real receptor daemon "nb" (from the binary under test) for the whole test process.
func startRemoteDaemon(base string) (addr string, err error) {
	bin := os.Getenv("VX_RECEPTOR_BIN")
	if bin == "" {
		return "", fmt.Errorf("VX_RECEPTOR_BIN not set")
	}
	l, err := net.Listen("tcp", "127.0.0.1:0")
	if err != nil {
		return "", err
	}
	port := l.Addr().(*net.TCPAddr).Port
	l.Close()
	dir := filepath.Join(base, "b")
	_ = os.MkdirAll(dir, 0o700)
	cfg := fmt.Sprintf(`---
- node:
    id: nb
    datadir: %s
- log-level: error
- tcp-listener:
    port: %d
    bindaddr: 127.0.0.1
- control-service:
    service: control
    filename: %s
- work-command:
    worktype: cmd
    command: /bin/sh
    params: "-c"
    allowruntimeparams: true
`, dir, port, filepath.Join(dir, "ctl.sock"))
	cfgFile := filepath.Join(dir, "receptor.yml")
	_ = os.WriteFile(cfgFile, []byte(cfg), 0o600)
	cmd := exec.Command(bin, "--config", cfgFile)
	cmd.Env = append(os.Environ(), "VERIF_CRASH=", "VERIF_STATUS_LOG=")
	cmd.SysProcAttr = &syscall.SysProcAttr{Setpgid: true, Pdeathsig: syscall.SIGKILL}
	logf, _ := os.Create(filepath.Join(dir, "daemon.log"))
	cmd.Stdout, cmd.Stderr = logf, logf
	if err := cmd.Start(); err != nil {
		return "", err
	}
	addr = fmt.Sprintf("127.0.0.1:%d", port)
	for i := 0; i < 100; i++ {
		if c, err := net.DialTimeout("tcp", addr, 200*time.Millisecond); err == nil {
			c.Close()
			break
		}
		time.Sleep(100 * time.Millisecond)
	}
	return addr, nil
}

var (
	c04Once  sync.Once
	c04Base  string
	c04BAddr string
	c04BErr  error
	c04Case  int
	c04Mu    sync.Mutex
)

// execC04Driver runs the phases of a scenario one after the other in fresh executor processes on one data directory
// (the remote daemon is started once per driver process) and returns the verdict of the judging phase.
func execC04Driver(b []byte) vx.Verdict {
	var s C04Scn
	if err := json.Unmarshal(b, &s); err != nil {
		return vx.Inconclusive("bad scenario: %v", err)
	}
	c04Once.Do(func() {
		c04Base, c04BErr = os.MkdirTemp("", "c04")
		if c04BErr == nil {
			c04BAddr, c04BErr = startRemoteDaemon(c04Base)
		}
	})
	if c04BErr != nil {
		return vx.Inconclusive("remote daemon: %v", c04BErr)
	}
	c04Mu.Lock()
	c04Case++
	dir := filepath.Join(c04Base, fmt.Sprintf("case%d", c04Case))
	c04Mu.Unlock()
	_ = os.MkdirAll(dir, 0o700)
	defer os.RemoveAll(dir)
	var last vx.Verdict
	maxDelay := 0
	for i := range s.Phases {
		ph := s.Phases[i]
		ph.Dir, ph.BAddr = dir, c04BAddr
		if ph.RunnerDelayMs > maxDelay {
			maxDelay = ph.RunnerDelayMs
		}
		if ph.Final {
			ph.RunnerDelayMs = maxDelay // information for the judge: some runner was made slow to report
		}
		r := &vx.Runner{Name: "C04", Timeout: 400 * time.Second}
		v := r.Run(ph)
		r.Close()
		if !ph.Final {
			if v.Status == "crash" && !strings.Contains(v.Detail, "panic:") && !strings.Contains(v.Detail, "fatal error:") {
				continue // died by SIGKILL as planned
			}
			if v.Status == "crash" {
				return v // a panic in the code under test
			}
			return vx.Inconclusive("incarnation %d did not die as planned: %s %s", i, v.Status, v.Detail)
		}
		last = v
	}
	return last
}

func init() {
	vx.Register("C04", execC04)
	vx.Register("C04.driver", execC04Driver)
}
