package workprops

import (
	"testing"
	"time"

	"pgregory.net/rapid"

	"verifharness/vx"
)

func genC13(t *rapid.T) C13Scn {
	var s C13Scn
	nc := rapid.SampledFrom([]int{1, 2, 3, 4, 8}).Draw(t, "nclients")
	kinds := []string{"prod-short", "prod-short", "prod-long", "cmd-short", "cmd-short", "cmd-long", "remote-long", "remote-absent", "cmd-stubborn"}
	if nc == 8 {
		// many submitters at once: the unique-ID clause
		for i := 0; i < nc; i++ {
			var ops []C13Op
			n := rapid.IntRange(1, 4).Draw(t, "burst")
			for k := 0; k < n; k++ {
				ops = append(ops, C13Op{K: "submit", Kind: rapid.SampledFrom([]string{"prod-short", "other", "remote-absent"}).Draw(t, "bkind")})
			}
			s.Clients = append(s.Clients, ops)
		}
		return s
	}
	for i := 0; i < nc; i++ {
		var ops []C13Op
		n := rapid.IntRange(1, 8).Draw(t, "nops")
		ops = append(ops, C13Op{K: "submit", Kind: rapid.SampledFrom(kinds).Draw(t, "firstkind")})
		for k := 0; k < n; k++ {
			op := C13Op{K: rapid.SampledFrom([]string{"submit", "status", "list", "cancel", "cancel", "release", "force-release", "results", "sleep", "sleep", "hold", "cut", "heal", "restart"}).Draw(t, "k"),
				U: rapid.IntRange(-2, 6).Draw(t, "u")}
			switch op.K {
			case "submit":
				op.Kind = rapid.SampledFrom(kinds).Draw(t, "kind")
			case "sleep":
				op.Ms = rapid.SampledFrom([]int{10, 100, 300, 450, 700}).Draw(t, "ms")
			case "hold":
				op.Ms = rapid.SampledFrom([]int{100, 400, 900}).Draw(t, "holdms")
			}
			ops = append(ops, op)
		}
		s.Clients = append(s.Clients, ops)
	}
	if rapid.IntRange(0, 4).Draw(t, "focus-remote-cancel") == 0 {
		// a remote unit is submitted while the executing node cannot be reached (pending, start retried in the background),
		// cancelled, and then the node becomes reachable
		s.Clients = append(s.Clients, []C13Op{{K: "cut", U: -1}, {K: "submit", Kind: "remote-long", U: -1},
			{K: rapid.SampledFrom([]string{"cancel", "cancel", "release"}).Draw(t, "focus-op"), U: 999},
			{K: "sleep", U: -1, Ms: rapid.SampledFrom([]int{100, 700}).Draw(t, "focus-ms")}, {K: "heal", U: -1}})
	}
	return s
}

func TestC13(t *testing.T) {
	st := vx.NewStats("C13", "lifecycle", "two in-process nodes (the second executes remote work); 1-4 concurrent control clients with 2-9 operations each from {submit an in-process unit short/long, a real command unit short / long / ignoring SIGINT, "+
		"a remote unit to the second node or to an absent node; status; list; cancel; release; force-release; results; sleep; hold the unit's status lock for 0.1-0.9 s; cut / heal the link; restart the submitter's work subsystem} on the k-th known unit or "+
		"unknown IDs, or 8 clients submitting at once; oracle: (hook) every rewrite of every status record, totally ordered by the record lock: stage pending < running < finished never decreases, Succeeded stays Succeeded with the same size, size does not shrink "+
		"while running; processes of cancelled/released command units are gone within 25 s; a unit recorded as locally cancelled does not (go on to) run on the executing node; released units are absent from list/status/disk; acknowledged IDs are pairwise distinct; non-trivial = a cancel or release of an unfinished unit, or >= 4 submits")
	defer st.Flush()
	r := &vx.Runner{Name: "C13", Timeout: 600 * time.Second, Recycle: 10}
	defer r.Close()
	rapid.Check(t, func(t *rapid.T) {
		s := genC13(t)
		st.Judge(t, s, r.Run(s))
	})
}
