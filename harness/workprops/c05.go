package workprops

import (
	"bytes"
	"encoding/json"
	"fmt"
	"os"
	"path/filepath"
	"strings"
	"sync"
	"time"

	"github.com/ansible/receptor/pkg/logger"
	"github.com/ansible/receptor/pkg/workceptor"

	"verifharness/vx"
)

// ---- scenario ----------------------------------------------------------------------------------------

type C05Req struct {
	AtMs   int  `json:"at_ms"`  // when to ask, relative to the submission
	OffSel int  `json:"offsel"` // how the start offset is chosen (see offsetFor)
	OffArg int  `json:"offarg"`
	JSON   bool `json:"json"`
}

// C05Seg is one segment of a command unit's output: Lines records of 9 bytes ("%08d\n"), then a pause.
type C05Seg struct {
	Lines   int `json:"lines"`
	SleepMs int `json:"sleep_ms"`
}

type C05Fault struct {
	AtMs  int    `json:"at_ms"`
	Kind  string `json:"kind"` // cut-ar | cut-rb | heal | restart-relay
	ForMs int    `json:"for_ms"`
}

type C05Scn struct {
	Kind   string      `json:"kind"` // prod | cmd | remote-prod | remote-cmd
	Prog   ProdProgram `json:"prog"` // prod kinds
	Segs   []C05Seg    `json:"segs"` // cmd kinds
	Exit   int         `json:"exit"` // cmd kinds: exit code of the command
	Reqs   []C05Req    `json:"reqs"`
	Faults []C05Fault  `json:"faults,omitempty"` // remote kinds
}

func cmdBytes(from, to int64) []byte {
	b := make([]byte, 0, to-from)
	for i := from; i < to; i++ {
		rec, pos := i/9, i%9
		s := fmt.Sprintf("%08d\n", rec+1)
		b = append(b, s[pos])
	}
	return b
}

func (s C05Scn) total() int64 {
	var t int64
	if strings.HasSuffix(s.Kind, "cmd") {
		for _, g := range s.Segs {
			t += int64(g.Lines) * 9
		}
		return t
	}
	for _, c := range s.Prog.Chunks {
		t += int64(c.Len)
	}
	return t
}

func (s C05Scn) expected(from, to int64) []byte {
	if strings.HasSuffix(s.Kind, "cmd") {
		return cmdBytes(from, to)
	}
	return ProdBytes(from, to)
}

func (s C05Scn) duration() time.Duration {
	var d time.Duration
	if strings.HasSuffix(s.Kind, "cmd") {
		for _, g := range s.Segs {
			d += time.Duration(g.SleepMs) * time.Millisecond
		}
		return d + 500*time.Millisecond
	}
	for _, c := range s.Prog.Chunks {
		d += time.Duration(c.DelayMs) * time.Millisecond
	}
	return d + time.Duration(s.Prog.EndMs)*time.Millisecond
}

// boundaries of the producer's writes
func (s C05Scn) boundaries() []int64 {
	var out []int64
	var t int64
	if strings.HasSuffix(s.Kind, "cmd") {
		for _, g := range s.Segs {
			t += int64(g.Lines) * 9
			out = append(out, t)
		}
		return out
	}
	for _, c := range s.Prog.Chunks {
		t += int64(c.Len)
		out = append(out, t)
	}
	return out
}

func (s C05Scn) offsetFor(r C05Req) int64 {
	total := s.total()
	bs := s.boundaries()
	var p int64
	switch r.OffSel % 6 {
	case 0:
		p = 0
	case 1:
		if len(bs) > 0 {
			p = bs[r.OffArg%len(bs)] + int64(r.OffArg%3) - 1
		}
	case 2:
		p = total - 1
	case 3:
		p = total
	case 4:
		if total > 0 {
			p = int64(r.OffArg*7919) % (total + 1)
		}
	default:
		p = 65536*int64(1+r.OffArg%3) + int64(r.OffArg%3) - 1
	}
	if p < 0 {
		p = 0
	}
	if p > total {
		p = total
	}
	return p
}

func shellScript(s C05Scn) string {
	var sb strings.Builder
	n := 0
	for _, g := range s.Segs {
		if g.Lines > 0 {
			fmt.Fprintf(&sb, "seq -f %%08.0f %d %d; ", n+1, n+g.Lines)
			n += g.Lines
		}
		if g.SleepMs > 0 {
			fmt.Fprintf(&sb, "sleep %d.%03d; ", g.SleepMs/1000, g.SleepMs%1000)
		}
	}
	fmt.Fprintf(&sb, "exit %d", s.Exit)
	return sb.String()
}

type c05Result struct {
	req    C05Req
	offset int64
	first  string
	data   []byte
	eof    bool
	err    error
	took   time.Duration
}

func fetchResults(network, addr, id string, p int64, asJSON bool, deadline time.Duration) c05Result {
	res := c05Result{offset: p}
	start := time.Now()
	c, err := DialCtl(network, addr, nil)
	if err != nil {
		res.err = err
		return res
	}
	defer c.Close()
	line := fmt.Sprintf("work results %s %d", id, p)
	if asJSON {
		line = fmt.Sprintf(`{"command":"work","subcommand":"results","unitid":%q,"startpos":%d}`, id, p)
	}
	res.first, err = c.Command(line, 30*time.Second)
	if err != nil {
		res.err = err
		return res
	}
	if !strings.HasPrefix(res.first, "Streaming results") {
		return res
	}
	data, err := c.ReadAll(deadline)
	res.data = data
	res.eof = err == nil
	res.err = err
	res.took = time.Since(start)
	return res
}

func execC05(b []byte) vx.Verdict {
	var s C05Scn
	if err := json.Unmarshal(b, &s); err != nil {
		return vx.Inconclusive("bad scenario: %v", err)
	}
	dir, err := os.MkdirTemp("", "c05")
	if err != nil {
		return vx.Inconclusive("tempdir: %v", err)
	}
	defer os.RemoveAll(dir)
	remote := strings.HasPrefix(s.Kind, "remote")
	m := vx.NewMesh(vx.DefaultNodeOpts())
	defer m.Close()
	na := m.StartNode("na")
	var wa, wb *WNode
	var linkAR, linkRB *vx.Link
	if remote {
		m.StartNode("nr")
		nb := m.StartNode("nb")
		linkAR = &vx.Link{A: "na", B: "nr", CostA: 1, CostB: 1, Spec: vx.LinkSpec{Ordered: true}}
		linkRB = &vx.Link{A: "nr", B: "nb", CostA: 1, CostB: 1, Spec: vx.LinkSpec{Ordered: true}}
		m.AddLink(linkAR)
		m.AddLink(linkRB)
		_ = os.MkdirAll(filepath.Join(dir, "b"), 0o700)
		wb, err = NewWNode(nb.N, filepath.Join(dir, "b"), WNodeOpts{MeshSvc: "control"})
		if err != nil {
			return vx.Inconclusive("node b: %v", err)
		}
		defer wb.Close()
		registerCmd(wb)
		if msg := vx.WaitFor(30*time.Second, 20*time.Millisecond, func() string {
			if na.N.Status().RoutingTable["nb"] == "" || nb.N.Status().RoutingTable["na"] == "" {
				return "no route"
			}
			return ""
		}); msg != "" {
			return vx.Inconclusive("mesh: %s", msg)
		}
	}
	_ = os.MkdirAll(filepath.Join(dir, "a"), 0o700)
	wa, err = NewWNode(na.N, filepath.Join(dir, "a"), WNodeOpts{})
	if err != nil {
		return vx.Inconclusive("node a: %v", err)
	}
	defer wa.Close()
	registerCmd(wa)

	total := s.total()
	labels := []string{"kind:" + s.Kind}
	// ---- submit
	c, err := DialCtl("unix", wa.Sock, nil)
	if err != nil {
		return vx.Inconclusive("dial: %v", err)
	}
	req := map[string]interface{}{"node": "na", "worktype": "prod"}
	payload, _ := json.Marshal(s.Prog)
	if strings.HasSuffix(s.Kind, "cmd") {
		req["worktype"] = "cmd"
		req["params"] = "'" + shellScript(s) + "'"
		payload = []byte{}
	}
	if remote {
		req["node"] = "nb"
	}
	first, reply, err := c.Submit(req, payload, 30*time.Second)
	c.Close()
	if err != nil || !strings.HasPrefix(first, "Work unit created") {
		return vx.Inconclusive("submit failed: %q %q %v", first, reply, err)
	}
	id := unitIDFromFirst(first)
	t0 := time.Now()
	// ---- faults (remote)
	stopFaults := make(chan struct{})
	var fwg sync.WaitGroup
	faultsApplied := 0
	var relayMu sync.Mutex
	if remote {
		for _, f := range s.Faults {
			f := f
			fwg.Add(1)
			go func() {
				defer fwg.Done()
				select {
				case <-stopFaults:
					return
				case <-time.After(time.Duration(f.AtMs) * time.Millisecond):
				}
				faultsApplied++
				dur := time.Duration(f.ForMs) * time.Millisecond
				switch f.Kind {
				case "cut-ar":
					linkAR.SetUp(false)
					time.Sleep(dur)
					linkAR.SetUp(true)
				case "cut-rb":
					linkRB.SetUp(false)
					time.Sleep(dur)
					linkRB.SetUp(true)
				case "restart-relay":
					relayMu.Lock() // two overlapping restarts would start the relay twice (two live nodes called nr)
					m.StopNode("nr")
					time.Sleep(dur + 1200*time.Millisecond)
					m.StartNode("nr")
					relayMu.Unlock()
				}
			}()
		}
	}
	// ---- prefix property of the locally stored output (remote): polled until the end
	var prefixViolation *vx.Verdict
	stopPoll := make(chan struct{})
	var pwg sync.WaitGroup
	localOut := filepath.Join(wa.DataDir, "na", id, "stdout")
	if remote {
		pwg.Add(1)
		go func() {
			defer pwg.Done()
			for {
				select {
				case <-stopPoll:
					return
				case <-time.After(50 * time.Millisecond):
				}
				data, err := os.ReadFile(localOut)
				if err != nil {
					continue
				}
				if int64(len(data)) > total || !bytes.Equal(data, s.expected(0, int64(len(data)))) {
					v := vx.CertainViolation("local-copy-is-prefix", "C05/mirror-not-prefix", "the locally stored output of the remote unit (%d bytes) is not a prefix of the remote output (%d bytes); first difference at %d", len(data), total, firstDiff(data, s.expected(0, minI64(int64(len(data)), total))))
					prefixViolation = &v
					return
				}
			}
		}()
	}
	// ---- result requests
	results := make([]c05Result, len(s.Reqs))
	var rwg sync.WaitGroup
	deadline := s.duration() + 45*time.Second
	if remote {
		deadline += 60 * time.Second
		for _, f := range s.Faults {
			deadline += time.Duration(f.ForMs) * time.Millisecond
		}
	}
	for i, r := range s.Reqs {
		rwg.Add(1)
		go func(i int, r C05Req) {
			defer rwg.Done()
			if d := time.Duration(r.AtMs)*time.Millisecond - time.Since(t0); d > 0 {
				time.Sleep(d)
			}
			p := s.offsetFor(r)
			res := fetchResults("unix", wa.Sock, id, p, r.JSON, deadline)
			res.req = r
			results[i] = res
		}(i, r)
	}
	if !vx.WithDeadline(deadline+90*time.Second, rwg.Wait) {
		return vx.Violation("ends-when-complete", "C05/requests-stuck", "result requests did not end within %v", deadline+90*time.Second)
	}
	close(stopFaults)
	fwg.Wait()
	// ---- judge every stream
	nontrivial := false
	for i, res := range results {
		p := res.offset
		if !strings.HasPrefix(res.first, "Streaming results") {
			return vx.Violation("results-answered", "C05/request-refused", "request %d (offset %d of %d) was answered %q (%v)", i, p, total, res.first, res.err)
		}
		want := s.expected(p, total)
		got := res.data
		n := len(got)
		if n > len(want) {
			n = len(want)
		}
		if !bytes.Equal(got[:n], want[:n]) {
			d := firstDiff(got[:n], want[:n])
			return vx.CertainViolation("exact-bytes", "C05/bytes-differ", "request %d (kind %s, asked at %d ms from offset %d of %d): byte %d of the stream (output offset %d) differs; %d bytes received", i, s.Kind, res.req.AtMs, p, total, d, p+int64(d), len(got))
		}
		if len(got) > len(want) {
			return vx.CertainViolation("exact-bytes", "C05/bytes-repeated", "request %d from offset %d: %d bytes received, the output has only %d from there", i, p, len(got), len(want))
		}
		if res.eof && len(got) < len(want) {
			return vx.CertainViolation("never-ends-early", "C05/ended-early", "request %d (kind %s, asked at %d ms from offset %d of %d): the stream ended after %d of %d bytes", i, s.Kind, res.req.AtMs, p, total, len(got), len(want))
		}
		if !res.eof {
			stf, _ := os.ReadFile(filepath.Join(wa.DataDir, "na", id, "status"))
			return vx.Violation("ends-when-complete", "C05/did-not-end", "request %d from offset %d: %d of %d bytes received but the stream was not closed within %v after the unit finished (%v); status record now: %s", i, p, len(got), len(want), deadline, res.err, strings.TrimSpace(string(stf)))
		}
		if (total > 65536 || time.Duration(res.req.AtMs)*time.Millisecond < s.duration()) && p != 0 {
			nontrivial = true
		}
	}
	// ---- remote: the local copy becomes equal
	if remote {
		msg := vx.WaitFor(deadline, 100*time.Millisecond, func() string {
			if prefixViolation != nil {
				return ""
			}
			data, _ := os.ReadFile(localOut)
			if int64(len(data)) == total {
				return ""
			}
			return fmt.Sprintf("local copy has %d of %d bytes", len(data), total)
		})
		close(stopPoll)
		pwg.Wait()
		if prefixViolation != nil {
			return *prefixViolation
		}
		if msg != "" {
			return vx.Violation("local-copy-becomes-equal", "C05/mirror-incomplete", "%s %v after the remote unit finished (%d fault(s) applied)", msg, deadline, faultsApplied)
		}
		// and the final request on the submitting node yields everything and ends
		res := fetchResults("unix", wa.Sock, id, 0, false, 60*time.Second)
		if !res.eof || !bytes.Equal(res.data, s.expected(0, total)) {
			return vx.Violation("local-copy-becomes-equal", "C05/final-results-wrong", "after mirroring completed, 'work results' on the submitting node returned %d of %d bytes (closed: %v, %v)", len(res.data), total, res.eof, res.err)
		}
		if faultsApplied > 0 {
			nontrivial = true
			labels = append(labels, "faults-during-mirroring")
		}
	} else {
		close(stopPoll)
	}
	if total > 65536 {
		labels = append(labels, "output>64KiB")
	}
	if total == 0 {
		labels = append(labels, "empty-output")
	}
	return vx.OK(nontrivial, labels...)
}

func registerCmd(wn *WNode) {
	// the command unit passes the *name* of the current log level to its runner process; the harness' quiet mode
	// (level 0) has no name, so nodes that run command units log at error level instead
	logger.SetGlobalLogLevel(logger.ErrorLevel)
	_ = wn.W.RegisterWorker("cmd", workceptor.CommandWorkerCfg{WorkType: "cmd", Command: "/bin/sh", Params: "-c", AllowRuntimeParams: true}.NewWorker, false)
}

func firstDiff(a, b []byte) int {
	n := len(a)
	if len(b) < n {
		n = len(b)
	}
	for i := 0; i < n; i++ {
		if a[i] != b[i] {
			return i
		}
	}
	return n
}

func minI64(a, b int64) int64 {
	if a < b {
		return a
	}
	return b
}

func init() { vx.Register("C05", execC05) }
