package workprops

import (
	"encoding/json"
	"fmt"
	"strings"
	"testing"
	"time"

	"pgregory.net/rapid"

	"verifharness/vx"
)

var c08Weird = []string{`null`, `0`, `1`, `-1`, `1.5`, `1e308`, `""`, `"x"`, `true`, `[]`, `[1]`, `["a"]`, `{}`, `{"a":1}`, `"` + strings.Repeat("A", 3000) + `"`, `[[[[[[]]]]]]`, `"\u0000"`}

var c08UnitIDs = []string{"@FIN@", "@FIN@", "@RUN@", "@DISK@", "@GONE@", "nosuchid", ".", "..", "../x", "a/b", "", "@FIN@/", "/etc", strings.Repeat("z", 300)}

type c08Field struct {
	name     string
	val      string // JSON text
	required bool
}

func jsonLine(fields []c08Field) string {
	var parts []string
	for _, f := range fields {
		parts = append(parts, fmt.Sprintf("%q:%s", f.name, f.val))
	}
	return "{" + strings.Join(parts, ",") + "}"
}

// genJSONCommand returns a JSON request for a built-in command with 0-2 fields substituted.
func genJSONCommand(t *rapid.T) C08Line {
	q := func(s string) string { return fmt.Sprintf("%q", s) }
	cmd := rapid.SampledFrom([]string{"ping", "status", "connect", "traceroute", "reload", "work", "work", "work", "nosuch", ""}).Draw(t, "cmd")
	fields := []c08Field{{"command", q(cmd), true}}
	expect := "any"
	class := "json:" + cmd
	unit := rapid.SampledFrom(c08UnitIDs).Draw(t, "unit")
	unitInvalid := unit != "@FIN@" && unit != "@RUN@" && unit != "@DISK@"
	switch cmd {
	case "ping", "traceroute":
		fields = append(fields, c08Field{"target", q(rapid.SampledFrom([]string{"n0", "n1", "nobody", ""}).Draw(t, "target")), true})
	case "status":
		if rapid.Bool().Draw(t, "rf") {
			fields = append(fields, c08Field{"requested_fields", rapid.SampledFrom([]string{`["NodeID"]`, `[]`, `["nosuch","Version"]`}).Draw(t, "rfv"), false})
		}
	case "connect":
		fields = append(fields, c08Field{"node", q(rapid.SampledFrom([]string{"nobody", "n1"}).Draw(t, "cnode")), true},
			c08Field{"service", q(rapid.SampledFrom([]string{"nosuchsv", ""}).Draw(t, "csvc")), true})
		expect = "error" // no such node / no such service: the dial fails
		class = "json:connect-unreachable"
	case "reload":
		expect = "any"
	case "work":
		sub := rapid.SampledFrom([]string{"list", "status", "cancel", "release", "force-release", "results", "nosuchsub", ""}).Draw(t, "sub")
		class = "json:work-" + sub
		fields = append(fields, c08Field{"subcommand", q(sub), true})
		switch sub {
		case "list":
			if rapid.Bool().Draw(t, "listid") {
				fields = append(fields, c08Field{"unitid", q(unit), false})
				if unitInvalid {
					expect, class = "error", "json:work-list-bad-id"
				}
			}
		case "status":
			fields = append(fields, c08Field{"unitid", q(unit), true})
			if unitInvalid {
				expect, class = "error", "json:work-status-bad-id"
			}
		case "cancel", "release", "force-release":
			// only on IDs that do not exist: the session must not disturb the units other sessions look at
			u := rapid.SampledFrom([]string{"@GONE@", "nosuchid", ".", "..", "../x", "a/b", ""}).Draw(t, "gone")
			fields = append(fields, c08Field{"unitid", q(u), true})
			expect, class = "error", "json:work-"+sub+"-bad-id"
		case "results":
			fields = append(fields, c08Field{"unitid", q(unit), true}, c08Field{"startpos", rapid.SampledFrom([]string{"0", "10", "2000", `"5"`, "99999"}).Draw(t, "sp"), true})
			if unitInvalid {
				expect, class = "error", "json:work-results-bad-id"
			} else if unit == "@RUN@" {
				expect = "error" // never generated: replaced below
				unit = "@FIN@"
				fields[len(fields)-2].val = q(unit)
				expect, class = "stream", "json:work-results"
			} else {
				expect, class = "stream", "json:work-results"
			}
		default:
			expect, class = "error", "json:work-bad-subcommand"
		}
	default:
		expect, class = "error", "json:unknown-command"
	}
	// field substitutions; the label is then recomputed from the final field list
	nsub := rapid.SampledFrom([]int{0, 0, 1, 1, 2}).Draw(t, "nsub")
	substituted := false
	for i := 0; i < nsub && len(fields) > 0; i++ {
		idx := rapid.IntRange(0, len(fields)-1).Draw(t, "fidx")
		if rapid.IntRange(0, 4).Draw(t, "missing") == 0 {
			fields = append(fields[:idx], fields[idx+1:]...)
		} else {
			fields[idx].val = rapid.SampledFrom(c08Weird).Draw(t, "weird")
		}
		substituted = true
	}
	if substituted {
		expect, class = c08Relabel(fields, expect, class)
	}
	return C08Line{Raw: []byte(jsonLine(fields)), Expect: expect, Class: class}
}

// c08Relabel derives the by-construction label of a JSON request from its final fields.
func c08Relabel(fields []c08Field, baseExpect, baseClass string) (string, string) {
	get := func(name string) (string, bool) {
		v, ok := "", false
		for _, f := range fields { // the last occurrence wins, as in encoding/json
			if f.name == name {
				v, ok = f.val, true
			}
		}
		return v, ok
	}
	str := func(v string) (string, bool) {
		if len(v) >= 2 && v[0] == '"' {
			var s string
			if err := jsonUnmarshal(v, &s); err == nil {
				return s, true
			}
		}
		return "", false
	}
	isNum := func(v string) bool {
		var f float64
		return jsonUnmarshal(v, &f) == nil && v != "null"
	}
	validUnit := func(u string) bool { return u == "@FIN@" || u == "@RUN@" || u == "@DISK@" }
	cv, ok := get("command")
	cmd, isStr := str(cv)
	if !ok || !isStr {
		return "error", "json:bad-command-field"
	}
	need := func(name string) (string, bool) {
		v, ok := get(name)
		if !ok {
			return "", false
		}
		return str(v)
	}
	switch cmd {
	case "ping", "traceroute":
		if _, ok := need("target"); !ok {
			return "error", "json:" + cmd + "-bad-target"
		}
		return "any", "json:" + cmd
	case "status":
		if v, ok := get("requested_fields"); ok {
			var l []string
			if v == "null" || jsonUnmarshal(v, &l) != nil {
				return "error", "json:status-bad-requested-fields"
			}
		}
		return "any", "json:status"
	case "reload":
		return "any", "json:reload"
	case "connect":
		if _, ok := need("node"); !ok {
			return "error", "json:connect-bad-field"
		}
		if _, ok := need("service"); !ok {
			return "error", "json:connect-bad-field"
		}
		return "error", "json:connect-unreachable"
	case "work":
		sub, ok := need("subcommand")
		if !ok {
			return "error", "json:work-bad-subcommand-field"
		}
		switch strings.ToLower(sub) {
		case "list":
			if v, ok := get("unitid"); ok {
				if u, isStr := str(v); isStr && !validUnit(u) {
					return "error", "json:work-list-bad-id"
				}
			}
			return "any", "json:work-list"
		case "status":
			u, ok := need("unitid")
			if !ok || !validUnit(u) {
				return "error", "json:work-status-bad-id"
			}
			return "any", "json:work-status"
		case "cancel", "release", "force-release":
			return "error", "json:work-" + sub + "-bad-id"
		case "results":
			u, ok := need("unitid")
			if !ok || !validUnit(u) {
				return "error", "json:work-results-bad-id"
			}
			sp, ok := get("startpos")
			if !ok || !isNum(sp) {
				return "error", "json:work-results-bad-startpos"
			}
			if u == "@RUN@" {
				return "any", "json:work-results-running" // would stream for ever: the session moves on after the first line
			}
			return "stream", "json:work-results"
		default:
			return "error", "json:work-bad-subcommand"
		}
	}
	return "error", "json:unknown-command"
}

func genPlainCommand(t *rapid.T) C08Line {
	unit := rapid.SampledFrom(c08UnitIDs).Draw(t, "unit")
	unitInvalid := unit != "@FIN@" && unit != "@RUN@" && unit != "@DISK@"
	switch rapid.IntRange(0, 13).Draw(t, "plain") {
	case 0:
		return C08Line{Raw: []byte("status"), Expect: "any", Class: "plain:status"}
	case 1:
		return C08Line{Raw: []byte("ping n1"), Expect: "any", Class: "plain:ping"}
	case 2:
		return C08Line{Raw: []byte("ping"), Expect: "error", Class: "plain:ping-no-target"}
	case 3:
		return C08Line{Raw: []byte("status extra"), Expect: "error", Class: "plain:status-with-params"}
	case 4:
		return C08Line{Raw: []byte("work list"), Expect: "any", Class: "plain:work-list"}
	case 5:
		l := C08Line{Raw: []byte("work status " + unit), Expect: "any", Class: "plain:work-status"}
		if unitInvalid {
			l.Expect, l.Class = "error", "plain:work-status-bad-id"
		}
		return l
	case 6:
		return C08Line{Raw: []byte("work status"), Expect: "error", Class: "plain:work-status-no-id"}
	case 7:
		return C08Line{Raw: []byte("work results " + unit + " notanumber"), Expect: "error", Class: "plain:work-results-bad-pos"}
	case 8:
		return C08Line{Raw: []byte("connect nobody svc"), Expect: "error", Class: "plain:connect-unreachable"}
	case 9:
		return C08Line{Raw: []byte("traceroute"), Expect: "error", Class: "plain:traceroute-no-target"}
	case 10:
		return C08Line{Raw: []byte(rapid.SampledFrom([]string{"frobnicate", "WORK", "Status x y", "work", "work bogus", "work submit", "work submit n0", "work cancel", "work release a b c"}).Draw(t, "odd")), Expect: "error", Class: "plain:odd"}
	case 11:
		return C08Line{Raw: []byte("work cancel " + rapid.SampledFrom([]string{"@GONE@", "nosuchid", "..", "a/b"}).Draw(t, "cid")), Expect: "error", Class: "plain:work-cancel-bad-id"}
	case 12:
		return C08Line{Raw: []byte("work release " + rapid.SampledFrom([]string{"@GONE@", "nosuchid", "../x", "."}).Draw(t, "rid")), Expect: "error", Class: "plain:work-release-bad-id"}
	default:
		return C08Line{Raw: []byte("work list " + unit), Expect: map[bool]string{true: "error", false: "any"}[unitInvalid], Class: "plain:work-list-id"}
	}
}

func genGarbage(t *rapid.T) C08Line {
	switch rapid.IntRange(0, 8).Draw(t, "garbage") {
	case 0:
		return C08Line{Raw: []byte{}, Expect: "none", Class: "empty-line"}
	case 1:
		return C08Line{Raw: []byte(rapid.SampledFrom([]string{" ", "\t", "  \t ", "\v", "\f \t"}).Draw(t, "ws")), Expect: "error", Class: "whitespace-only"}
	case 2:
		b := rapid.SliceOfN(rapid.ByteRange(1, 255), 1, 60).Draw(t, "bytes")
		for i := range b {
			if b[i] == '\n' || b[i] == '\r' {
				b[i] = 'x'
			}
		}
		if b[0] == '{' {
			b[0] = '}'
		}
		if strings.TrimSpace(string(b)) == "" {
			b = []byte("??")
		}
		return C08Line{Raw: b, Expect: "error", Class: "random-bytes"}
	case 3:
		return C08Line{Raw: []byte(rapid.SampledFrom([]string{"{", "{}", `{"command"`, `{"command":}`, `{"command":"status"`, `{"command":1}`, `{"command":null}`, `{"command":["status"]}`, `{"Command":"nosuch"}`, `{"a":{"b":{"c":{}}}}`, "{\x00}", `{"command":"work","subcommand":{"a":1}}`}).Draw(t, "badjson")), Expect: "error", Class: "bad-json"}
	case 4:
		return C08Line{Raw: []byte("A"), Rep: rapid.SampledFrom([]int{70000, 300000, 1 << 20}).Draw(t, "long"), Expect: "error", Class: "over-long-line"}
	case 5:
		return C08Line{Raw: []byte(`{"command":"status","pad":"` + strings.Repeat("p", 1000)), Rep: 1, Expect: "drop", Class: "disconnect-mid-line"}
	case 6:
		return C08Line{Raw: []byte("stat\x00us"), Expect: "error", Class: "nul-byte"}
	case 7:
		return C08Line{Raw: []byte("\xff\xfe status"), Expect: "error", Class: "non-utf8"}
	default:
		return C08Line{Raw: []byte("work status \xff\xfe/../.."), Expect: "error", Class: "non-utf8-unit-id"}
	}
}

func genC08(t *rapid.T) C08Scn {
	var s C08Scn
	s.Churn = rapid.SampledFrom([]int{0, 0, 5, 30}).Draw(t, "churn")
	ns := rapid.SampledFrom([]int{1, 1, 2, 3, 8}).Draw(t, "nsessions")
	for i := 0; i < ns; i++ {
		sess := C08Session{Conn: rapid.SampledFrom([]string{"unix", "unix", "tcp"}).Draw(t, "conn")}
		nl := rapid.IntRange(1, 10).Draw(t, "nlines")
		for k := 0; k < nl; k++ {
			var l C08Line
			switch rapid.IntRange(0, 9).Draw(t, "linekind") {
			case 0, 1, 2, 3:
				l = genJSONCommand(t)
			case 4, 5, 6:
				l = genPlainCommand(t)
			case 7:
				l = C08Line{Raw: []byte(`{"command":"work","subcommand":"submit","node":"n0","worktype":"prod"}`), Expect: "submit", Class: "valid-submit",
					Payload: []byte(`{"chunks":[{"len":100}],"final":2}`)}
			default:
				l = genGarbage(t)
			}
			sess.Lines = append(sess.Lines, l)
			if l.Expect == "submit" || l.Expect == "stream" || l.Expect == "drop" {
				break
			}
		}
		s.Sessions = append(s.Sessions, sess)
	}
	return s
}

func TestC08(t *testing.T) {
	st := vx.NewStats("C08", "control", "an in-process node (netceptor + control service on a Unix socket and TCP + workceptor with an in-process work type) with a finished unit, a running unit, a released unit and a unit directory that exists only on disk; "+
		"1-8 concurrent sessions of 1-10 request lines from a grammar: every built-in command in JSON form with 0-2 fields missing or replaced by JSON of every type, plain forms with missing / surplus arguments, unknown commands and "+
		"subcommands, unit IDs {finished, running, on-disk-only, released, unknown, '.', '..', '../x', 'a/b', empty, over-long}, malformed JSON, whitespace-only lines, NUL and non-UTF-8 bytes, lines up to 1 MiB, disconnects mid-line, "+
		"valid submits and result streams; optionally 5-30 submit + release cycles run on other sessions at the same time; every line carries its by-construction label (invalid => first reply line must start with ERROR within 20 s; valid => some answer); after the sessions a fresh connection must get "+
		"'status' and 'work list' answered within 5 s; non-trivial = an invalid line followed by a valid command in the same session; distinct by canonical JSON")
	defer st.Flush()
	r := &vx.Runner{Name: "C08", Timeout: 400 * time.Second, Recycle: 40}
	defer r.Close()
	rapid.Check(t, func(t *rapid.T) {
		s := genC08(t)
		st.Judge(t, s, r.Run(s))
	})
}

func jsonUnmarshal(text string, into interface{}) error { return json.Unmarshal([]byte(text), into) }
