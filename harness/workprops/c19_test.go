package workprops

import (
	"testing"
	"time"

	"pgregory.net/rapid"

	"verifharness/vx"
)

var c19SecretKeys = []string{"secret_a", "SECRET_b", "Secret_Token", "sEcReT_x", "secret_", "SECRET_", "secret__", "secret_é", "SECRET_KEY_1", "secret_a b"}
var c19OtherKeys = []string{"secret", "xsecret_a", "secret-a", " secret_a", "secre_t", "mysecret_", "a", "token", "Secret", "s", "secrets_a", "ſecret_a", "param", "env"}

func genC19(t *rapid.T) C19Scn {
	s := C19Scn{TLS: rapid.Bool().Draw(t, "tls")}
	if s.TLS && rapid.IntRange(0, 2).Draw(t, "refusing-remote") == 0 {
		s.Remote = "refuse"
	}
	used := map[string]bool{}
	n := rapid.IntRange(0, 8).Draw(t, "nparams")
	// mixes of secret and ordinary keys in both orders; sometimes only one kind
	for i := 0; i < n; i++ {
		var k string
		if rapid.IntRange(0, 2).Draw(t, "kind") == 0 {
			k = rapid.SampledFrom(c19SecretKeys).Draw(t, "sk")
		} else {
			k = rapid.SampledFrom(c19OtherKeys).Draw(t, "ok")
		}
		if used[k] {
			continue
		}
		used[k] = true
		s.Params = append(s.Params, C19Param{Key: k, Val: "V" + rapid.StringMatching(`[0-9a-f]{14}`).Draw(t, "val") + "Z"})
	}
	no := rapid.IntRange(0, 8).Draw(t, "nops")
	for i := 0; i < no; i++ {
		s.Ops = append(s.Ops, rapid.SampledFrom([]string{"status", "statusjson", "list", "listid", "cancel", "release", "restart", "restart", "status"}).Draw(t, "op"))
	}
	return s
}

func TestC19(t *testing.T) {
	st := vx.NewStats("C19", "secrets", "remote work submissions (to an absent node, so the unit stays inspectable, or - one TLS case in three - to a real second node with a TLS control service that refuses the work type, so that its answer comes back in an error text) with 0-8 parameters: keys from secret spellings in every letter case (incl. exactly 'secret_') and near misses "+
		"('secret', 'xsecret_a', 'secret-a', ' secret_a', 'secrets_a', long-s), values = unique 16-character markers, with or without a TLS client profile; then 0-8 operations {status plain/JSON, list, list <id>, cancel, "+
		"force-release, restart of the work subsystem on the same data directory}; oracle: no secret value is a substring of any byte the control service ever sent; non-secret pairs are reported unchanged in RemoteParams; "+
		"a submission with a secret and no TLS profile is answered ERROR and leaves no unit directory; non-trivial = a secret key not in lower case and >= 1 restart before a status request; distinct by canonical JSON")
	defer st.Flush()
	r := &vx.Runner{Name: "C19", Timeout: 200 * time.Second, Recycle: 100}
	defer r.Close()
	rapid.Check(t, func(t *rapid.T) {
		s := genC19(t)
		st.Judge(t, s, r.Run(s))
	})
}
