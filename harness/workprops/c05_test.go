package workprops

import (
	"testing"
	"time"

	"pgregory.net/rapid"

	"verifharness/vx"
)

func genC05(t *rapid.T, kinds []string) C05Scn {
	s := C05Scn{Kind: rapid.SampledFrom(kinds).Draw(t, "kind")}
	isCmd := s.Kind == "cmd" || s.Kind == "remote-cmd"
	if isCmd {
		n := rapid.IntRange(0, 6).Draw(t, "nsegs")
		for i := 0; i < n; i++ {
			s.Segs = append(s.Segs, C05Seg{Lines: rapid.SampledFrom([]int{0, 1, 10, 1000, 8000, 20000}).Draw(t, "lines"), SleepMs: rapid.SampledFrom([]int{0, 0, 100, 400, 1200}).Draw(t, "sleep")})
		}
		s.Exit = rapid.SampledFrom([]int{0, 0, 1, 3}).Draw(t, "exit")
		if rapid.Bool().Draw(t, "tailburst") {
			// output right before the exit (the runner samples the size only every 250 ms while the command runs)
			s.Segs = append(s.Segs, C05Seg{Lines: rapid.SampledFrom([]int{1, 10, 3000}).Draw(t, "taillines"), SleepMs: 0})
		}
	} else {
		n := rapid.IntRange(0, 12).Draw(t, "nchunks")
		for i := 0; i < n; i++ {
			s.Prog.Chunks = append(s.Prog.Chunks, ProdChunk{Len: rapid.OneOf(rapid.SampledFrom([]int{0, 1, 100, 65535, 65536, 65537, 70000, 200000, 1100000}), rapid.IntRange(0, 5000)).Draw(t, "len"),
				DelayMs: rapid.SampledFrom([]int{0, 0, 0, 50, 300, 1100}).Draw(t, "delay")})
		}
		s.Prog.Final = rapid.SampledFrom([]int{2, 2, 3}).Draw(t, "final")
		s.Prog.EndMs = rapid.SampledFrom([]int{0, 0, 300, 1500}).Draw(t, "endms")
	}
	dur := int(s.duration() / time.Millisecond)
	nr := rapid.IntRange(1, 5).Draw(t, "nreqs")
	for i := 0; i < nr; i++ {
		s.Reqs = append(s.Reqs, C05Req{AtMs: rapid.OneOf(rapid.Just(0), rapid.IntRange(0, dur+1), rapid.Just(dur+2500)).Draw(t, "at"),
			OffSel: rapid.IntRange(0, 5).Draw(t, "offsel"), OffArg: rapid.IntRange(0, 50).Draw(t, "offarg"), JSON: rapid.Bool().Draw(t, "json")})
	}
	if s.Kind == "remote-prod" || s.Kind == "remote-cmd" {
		nf := rapid.IntRange(0, 3).Draw(t, "nfaults")
		for i := 0; i < nf; i++ {
			s.Faults = append(s.Faults, C05Fault{AtMs: rapid.IntRange(0, dur+1500).Draw(t, "fat"), Kind: rapid.SampledFrom([]string{"cut-ar", "cut-rb", "cut-rb", "restart-relay"}).Draw(t, "fkind"),
				ForMs: rapid.SampledFrom([]int{100, 800, 2500}).Draw(t, "for")})
		}
	}
	return s
}

const c05Rule = "producer programmes (0-12 writes of 0-1100000 bytes (outputs beyond 10^6 bytes, where a JSON number prints in exponent form, in about a third of the programmes) with delays 0-1.1 s, final Succeeded/Failed, optional pause before the final status; or real command units printing 0-20000 9-byte records per segment with sleeps and exit codes 0/1/3); " +
	"1-5 result requests at drawn times (before, during, after the producer) from offsets {0, write boundaries +-1, size-1, size, random, multiples of 64 KiB +-1}, plain and JSON form; oracle: the bytes after the 'Streaming results' line equal output[p:], " +
	"the server closes the stream, never before everything was sent, and does close it after the unit finished; non-trivial = offset != 0 and (output > 64 KiB or asked while the producer runs)"

func TestC05Local(t *testing.T) {
	st := vx.NewStats("C05", "local", "[in-process node, in-process producer unit and real command units] "+c05Rule)
	defer st.Flush()
	r := &vx.Runner{Name: "C05", Timeout: 400 * time.Second, Recycle: 40}
	defer r.Close()
	rapid.Check(t, func(t *rapid.T) {
		s := genC05(t, []string{"prod", "prod", "cmd"})
		st.Judge(t, s, r.Run(s))
	})
}

func TestC05Remote(t *testing.T) {
	st := vx.NewStats("C05", "remote", "[three in-process nodes A - R - B, A submits remote work to B; 0-3 faults {cut A-R, cut R-B, restart the relay} for 0.1-2.5 s at drawn times] "+c05Rule+
		"; additionally A's stored output is polled every 50 ms and must always be a prefix of the remote output, become equal to it, and A's own 'work results' must then return all of it; non-trivial also = >= 1 fault applied")
	defer st.Flush()
	r := &vx.Runner{Name: "C05", Timeout: 600 * time.Second, Recycle: 20}
	defer r.Close()
	rapid.Check(t, func(t *rapid.T) {
		s := genC05(t, []string{"remote-prod", "remote-cmd"})
		st.Judge(t, s, r.Run(s))
	})
}
