package netprops

import (
	"strings"
	"testing"

	"pgregory.net/rapid"

	"verifharness/vx"
)

var fwNodeNames = []string{"a", "ab", "abc", "b", "foo", "bar", "foobaz", "xbar", "A", "aXb", "/abc", "n1", "n2", "n3"}
var fwSvcNames = []string{"a", "ab", "control", "ctl", "foo", "bar", "xbar", "foobaz", "echo", "s1", "s2", "/x"}

func genCase(s string) *rapid.Generator[string] {
	return rapid.Custom(func(t *rapid.T) string {
		mode := rapid.IntRange(0, 3).Draw(t, "case")
		switch mode {
		case 0:
			return s
		case 1:
			return strings.ToUpper(s)
		case 2:
			return strings.ToUpper(s[:1]) + s[1:]
		}
		b := []byte(s)
		for i := range b {
			if rapid.Bool().Draw(t, "up") {
				b[i] = strings.ToUpper(string(b[i]))[0]
			}
		}
		return string(b)
	})
}

// small regex grammar over the name alphabet
func genRegexBody(names []string) *rapid.Generator[string] {
	atom := rapid.Custom(func(t *rapid.T) string {
		switch rapid.IntRange(0, 7).Draw(t, "atom") {
		case 0:
			return rapid.SampledFrom(names).Draw(t, "lit")
		case 1:
			return ".*"
		case 2:
			return "[a-c]"
		case 3:
			return "."
		case 4:
			return "[^/]+"
		case 5:
			return "a.*b"
		case 6:
			return "(foo|bar)"
		}
		return rapid.SampledFrom([]string{"a", "b", "x", "o", "f", "n", "s", "1", "2"}).Draw(t, "ch")
	})
	return rapid.Custom(func(t *rapid.T) string {
		nAlt := rapid.IntRange(1, 3).Draw(t, "nalt")
		alts := make([]string, nAlt)
		for i := range alts {
			n := rapid.IntRange(1, 3).Draw(t, "natoms")
			for j := 0; j < n; j++ {
				alts[i] += atom.Draw(t, "a")
			}
		}
		body := strings.Join(alts, "|")
		switch rapid.IntRange(0, 9).Draw(t, "wrap") {
		case 0:
			body = "(?i)" + body
		case 1:
			body = "^" + body + "$"
		case 2:
			body = "(" + body + ")"
		case 3:
			body = "^" + body
		}
		return body
	})
}

func genPattern(names []string, clean bool) *rapid.Generator[string] {
	return rapid.Custom(func(t *rapid.T) string {
		hi := 19
		if clean {
			hi = 15
		}
		switch k := rapid.IntRange(0, hi).Draw(t, "pk"); {
		case k < 9:
			return rapid.SampledFrom(names).Draw(t, "lit")
		case k < 16:
			return "/" + genRegexBody(names).Draw(t, "re") + "/"
		case k == 16:
			return rapid.SampledFrom([]string{"/[/", "/(/", "/a(/", "/*/", "/a{2,1}/", "/(?P<x/", "/[a-/", "/\\/"}).Draw(t, "bad")
		case k == 17:
			return rapid.SampledFrom([]string{"/abc", "/a.*", "/", "/foo|bar"}).Draw(t, "unclosed")
		case k == 18:
			return ""
		}
		return "//"
	})
}

func genFWRule(clean bool) *rapid.Generator[FWRule] {
	fields := []string{"fromnode", "tonode", "fromservice", "toservice"}
	return rapid.Custom(func(t *rapid.T) FWRule {
		var r FWRule
		// action
		ak := 0
		if !clean {
			ak = rapid.IntRange(0, 19).Draw(t, "ak")
		}
		switch {
		case ak < 17:
			r = append(r, FWEntry{KeyKind: "str", Key: genCase("action").Draw(t, "akey"), ValKind: "str",
				Val: genCase(rapid.SampledFrom([]string{"accept", "reject", "drop"}).Draw(t, "act")).Draw(t, "actc")})
		case ak == 17:
			r = append(r, FWEntry{KeyKind: "str", Key: "action", ValKind: "str",
				Val: rapid.SampledFrom([]string{"", "allow", "deny", "accept ", "drop,accept", "continue"}).Draw(t, "badact")})
		case ak == 18:
			// no action at all
		default:
			r = append(r, FWEntry{KeyKind: "str", Key: "action", ValKind: rapid.SampledFrom([]string{"int", "bool", "nil", "list", "map"}).Draw(t, "avk"), Val: "drop"})
		}
		for _, f := range fields {
			if !rapid.Bool().Draw(t, "has-"+f) {
				continue
			}
			names := fwNodeNames
			if strings.HasSuffix(f, "service") {
				names = fwSvcNames
			}
			e := FWEntry{KeyKind: "str", Key: genCase(f).Draw(t, "key"), ValKind: "str", Val: genPattern(names, clean).Draw(t, "pat")}
			if !clean && rapid.IntRange(0, 19).Draw(t, "vkind") == 0 {
				e.ValKind = rapid.SampledFrom([]string{"int", "bool", "nil", "list", "map"}).Draw(t, "vk")
			}
			r = append(r, e)
		}
		extra := 99
		if !clean {
			extra = rapid.IntRange(0, 19).Draw(t, "extra")
		}
		switch extra {
		case 0:
			r = append(r, FWEntry{KeyKind: "str", Key: rapid.SampledFrom([]string{"actions", "from", "to_node", "", "node", "fromnodes", "service"}).Draw(t, "uk"), ValKind: "str", Val: "a"})
		case 1:
			r = append(r, FWEntry{KeyKind: "int", Key: "xx", ValKind: "str", Val: "a"})
		}
		return r
	})
}

func genFWPacket() *rapid.Generator[FWPacket] {
	return rapid.Custom(func(t *rapid.T) FWPacket {
		return FWPacket{
			FromNode:    rapid.SampledFrom(fwNodeNames).Draw(t, "fn"),
			ToNode:      rapid.SampledFrom(fwNodeNames).Draw(t, "tn"),
			FromService: rapid.SampledFrom(fwSvcNames).Draw(t, "fs"),
			ToService:   rapid.SampledFrom(fwSvcNames).Draw(t, "ts"),
		}
	})
}

func TestC12Pure(t *testing.T) {
	st := vx.NewStats("C12", "pure", "rule lists (0-6 rules, YAML-shaped maps: keys in random case / unknown / non-string, values of every type, "+
		"literal / regex-grammar / malformed patterns) x 12 packets over a colliding name alphabet; non-trivial = a regex field or a packet for which a later "+
		"rule with a different action is shadowed by the first match, or a rule set that must be refused; distinct by canonical JSON")
	defer st.Flush()
	r := &vx.Runner{Name: "C12.pure", InProc: true}
	rapid.Check(t, func(t *rapid.T) {
		clean := rapid.IntRange(0, 9).Draw(t, "clean") < 7
		s := C12Pure{
			Rules:   rapid.SliceOfN(genFWRule(clean), 0, 6).Draw(t, "rules"),
			Packets: rapid.SliceOfN(genFWPacket(), 12, 12).Draw(t, "packets"),
		}
		st.Judge(t, s, r.Run(s))
	})
}
