package netprops

import (
	"strings"
	"testing"
	"time"

	"pgregory.net/rapid"

	"verifharness/vx"
)

var fwNodeNames = []string{"a", "ab", "abc", "b", "foo", "bar", "foobaz", "xbar", "A", "aXb", "/abc", "n1", "n2", "n3"}
var fwSvcNames = []string{"a", "ab", "control", "ctl", "foo", "bar", "xbar", "foobaz", "echo", "s1", "s2", "/x"}

func genCase(s string) *rapid.Generator[string] {
	return rapid.Custom(func(t *rapid.T) string {
		mode := rapid.IntRange(0, 3).Draw(t, "case")
		switch mode {
		case 0:
			return s
		case 1:
			return strings.ToUpper(s)
		case 2:
			return strings.ToUpper(s[:1]) + s[1:]
		}
		b := []byte(s)
		for i := range b {
			if rapid.Bool().Draw(t, "up") {
				b[i] = strings.ToUpper(string(b[i]))[0]
			}
		}
		return string(b)
	})
}

// small regex grammar over the name alphabet
func genRegexBody(names []string) *rapid.Generator[string] {
	atom := rapid.Custom(func(t *rapid.T) string {
		switch rapid.IntRange(0, 7).Draw(t, "atom") {
		case 0:
			return rapid.SampledFrom(names).Draw(t, "lit")
		case 1:
			return ".*"
		case 2:
			return "[a-c]"
		case 3:
			return "."
		case 4:
			return "[^/]+"
		case 5:
			return "a.*b"
		case 6:
			return "(foo|bar)"
		}
		return rapid.SampledFrom([]string{"a", "b", "x", "o", "f", "n", "s", "1", "2"}).Draw(t, "ch")
	})
	return rapid.Custom(func(t *rapid.T) string {
		nAlt := rapid.IntRange(1, 3).Draw(t, "nalt")
		alts := make([]string, nAlt)
		for i := range alts {
			n := rapid.IntRange(1, 3).Draw(t, "natoms")
			for j := 0; j < n; j++ {
				alts[i] += atom.Draw(t, "a")
			}
		}
		body := strings.Join(alts, "|")
		switch rapid.IntRange(0, 9).Draw(t, "wrap") {
		case 0:
			body = "(?i)" + body
		case 1:
			body = "^" + body + "$"
		case 2:
			body = "(" + body + ")"
		case 3:
			body = "^" + body
		}
		return body
	})
}

func genPattern(names []string, clean bool) *rapid.Generator[string] {
	return rapid.Custom(func(t *rapid.T) string {
		hi := 19
		if clean {
			hi = 15
		}
		switch k := rapid.IntRange(0, hi).Draw(t, "pk"); {
		case k < 9:
			return rapid.SampledFrom(names).Draw(t, "lit")
		case k < 16:
			return "/" + genRegexBody(names).Draw(t, "re") + "/"
		case k == 16:
			return rapid.SampledFrom([]string{"/[/", "/(/", "/a(/", "/*/", "/a{2,1}/", "/(?P<x/", "/[a-/", "/\\/"}).Draw(t, "bad")
		case k == 17:
			return rapid.SampledFrom([]string{"/abc", "/a.*", "/", "/foo|bar"}).Draw(t, "unclosed")
		case k == 18:
			return ""
		}
		return "//"
	})
}

func genFWRule(clean bool) *rapid.Generator[FWRule] {
	fields := []string{"fromnode", "tonode", "fromservice", "toservice"}
	return rapid.Custom(func(t *rapid.T) FWRule {
		var r FWRule
		// action
		ak := 0
		if !clean {
			ak = rapid.IntRange(0, 19).Draw(t, "ak")
		}
		switch {
		case ak < 17:
			r = append(r, FWEntry{KeyKind: "str", Key: genCase("action").Draw(t, "akey"), ValKind: "str",
				Val: genCase(rapid.SampledFrom([]string{"accept", "reject", "drop"}).Draw(t, "act")).Draw(t, "actc")})
		case ak == 17:
			r = append(r, FWEntry{KeyKind: "str", Key: "action", ValKind: "str",
				Val: rapid.SampledFrom([]string{"", "allow", "deny", "accept ", "drop,accept", "continue"}).Draw(t, "badact")})
		case ak == 18:
			// no action at all
		default:
			r = append(r, FWEntry{KeyKind: "str", Key: "action", ValKind: rapid.SampledFrom([]string{"int", "bool", "nil", "list", "map"}).Draw(t, "avk"), Val: "drop"})
		}
		for _, f := range fields {
			if !rapid.Bool().Draw(t, "has-"+f) {
				continue
			}
			names := fwNodeNames
			if strings.HasSuffix(f, "service") {
				names = fwSvcNames
			}
			e := FWEntry{KeyKind: "str", Key: genCase(f).Draw(t, "key"), ValKind: "str", Val: genPattern(names, clean).Draw(t, "pat")}
			if !clean && rapid.IntRange(0, 19).Draw(t, "vkind") == 0 {
				e.ValKind = rapid.SampledFrom([]string{"int", "bool", "nil", "list", "map"}).Draw(t, "vk")
			}
			r = append(r, e)
		}
		extra := 99
		if !clean {
			extra = rapid.IntRange(0, 19).Draw(t, "extra")
		}
		switch extra {
		case 0:
			r = append(r, FWEntry{KeyKind: "str", Key: rapid.SampledFrom([]string{"actions", "from", "to_node", "", "node", "fromnodes", "service"}).Draw(t, "uk"), ValKind: "str", Val: "a"})
		case 1:
			r = append(r, FWEntry{KeyKind: "int", Key: "xx", ValKind: "str", Val: "a"})
		}
		return r
	})
}

func genFWPacket() *rapid.Generator[FWPacket] {
	return rapid.Custom(func(t *rapid.T) FWPacket {
		return FWPacket{
			FromNode:    rapid.SampledFrom(fwNodeNames).Draw(t, "fn"),
			ToNode:      rapid.SampledFrom(fwNodeNames).Draw(t, "tn"),
			FromService: rapid.SampledFrom(fwSvcNames).Draw(t, "fs"),
			ToService:   rapid.SampledFrom(fwSvcNames).Draw(t, "ts"),
		}
	})
}

const c12PureRule = "rule lists (0-6 rules, YAML-shaped maps: keys in random case / unknown / non-string, values of every type, " +
	"literal / regex-grammar / malformed patterns) x 12 packets over a colliding name alphabet; one case in twenty also goes through the node configuration entry point (types.NodeCfg.Init); non-trivial = a regex field or a packet for which a later " +
	"rule with a different action is shadowed by the first match, or a rule set that must be refused; distinct by canonical JSON"

func TestC12Pure(t *testing.T) {
	st := vx.NewStats("C12", "pure", c12PureRule)
	defer st.Flush()
	r := &vx.Runner{Name: "C12.pure", InProc: true}
	rapid.Check(t, func(t *rapid.T) {
		s := genC12Pure(t)
		st.Judge(t, s, r.Run(s))
	})
}

func genC12Pure(t *rapid.T) C12Pure {
	clean := rapid.IntRange(0, 9).Draw(t, "clean") < 7
	return C12Pure{
		Rules:     rapid.SliceOfN(genFWRule(clean), 0, 6).Draw(t, "rules"),
		Packets:   rapid.SliceOfN(genFWPacket(), 12, 12).Draw(t, "packets"),
		ViaConfig: rapid.IntRange(0, 19).Draw(t, "viaconfig") == 0,
	}
}

func TestC12Mesh(t *testing.T) {
	st := vx.NewStats("C12", "mesh", "a real chain of three nodes named from the colliding name alphabet, each with a generated valid rule list (0-4 rules, literal and regex fields, all three actions); 1-16 datagrams between bound services of any two nodes "+
		"(some injected by a scripted peer with source service 'unreach'); reference model: the packet meets the rule lists of origin, transit and destination in turn, the first matching rule decides; a reject sends a 'blocked by firewall' notice back, "+
		"which is itself filtered on its way; oracle: delivered / notice at the sending socket from the rejecting node / silence exactly as the model says; non-trivial = some packet is stopped at origin, transit or destination; distinct by canonical JSON")
	defer st.Flush()
	r := &vx.Runner{Name: "C12.mesh", Timeout: 150 * time.Second, Recycle: 40}
	defer r.Close()
	rapid.Check(t, func(t *rapid.T) {
		var s C12Mesh
		perm := rapid.Permutation([]string{"a", "ab", "abc", "b", "foo", "bar", "xbar", "foobaz", "aXb"}).Draw(t, "names")
		copy(s.Names[:], perm[:3])
		// rules aimed at this chain's names and services (so that they actually match some traffic), more of them on the
		// middle node so that transit decisions occur
		meshRule := rapid.Custom(func(t *rapid.T) FWRule {
			r := FWRule{{KeyKind: "str", Key: genCase("action").Draw(t, "ak"), ValKind: "str", Val: rapid.SampledFrom([]string{"accept", "reject", "drop", "drop", "reject"}).Draw(t, "act")}}
			nodePat := func(label string) string {
				return rapid.SampledFrom([]string{s.Names[0], s.Names[1], s.Names[2], "/a.*/", "/.*b.*/", "/(foo|bar|xbar)/", "/.*/", "/[a-z]+/", "/" + s.Names[2] + "|" + s.Names[0] + "/"}).Draw(t, label)
			}
			svcPat := func(label string) string {
				return rapid.SampledFrom([]string{"a", "ab", "control", "foo", "bar", "xbar", "foobaz", "echo", "unreach", "/.*bar/", "/foo.*/", "/a|ab/", "/c.*l/", "/.*/"}).Draw(t, label)
			}
			n := 0
			if rapid.Bool().Draw(t, "fn") {
				r = append(r, FWEntry{KeyKind: "str", Key: "fromnode", ValKind: "str", Val: nodePat("fnp")})
				n++
			}
			if rapid.Bool().Draw(t, "tn") {
				r = append(r, FWEntry{KeyKind: "str", Key: genCase("tonode").Draw(t, "tnk"), ValKind: "str", Val: nodePat("tnp")})
				n++
			}
			if rapid.Bool().Draw(t, "fs") {
				r = append(r, FWEntry{KeyKind: "str", Key: "fromservice", ValKind: "str", Val: svcPat("fsp")})
				n++
			}
			if rapid.Bool().Draw(t, "ts") || n == 0 {
				r = append(r, FWEntry{KeyKind: "str", Key: "ToService", ValKind: "str", Val: svcPat("tsp")})
			}
			return r
		})
		for i := 0; i < 3; i++ {
			hi := 3
			if i == 1 {
				hi = 5
			}
			s.Rules[i] = rapid.SliceOfN(meshRule, 0, hi).Draw(t, "rules")
		}
		n := rapid.IntRange(1, 16).Draw(t, "nsends")
		for i := 0; i < n; i++ {
			s.Sends = append(s.Sends, C12Send{From: rapid.IntRange(0, 2).Draw(t, "from"), FromSvc: rapid.IntRange(0, 7).Draw(t, "fs"), To: rapid.IntRange(0, 2).Draw(t, "to"),
				ToSvc: rapid.IntRange(0, 7).Draw(t, "ts"), Forged: rapid.IntRange(0, 5).Draw(t, "forged") == 0})
		}
		st.Judge(t, s, r.Run(s))
	})
}
