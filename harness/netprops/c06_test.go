package netprops

import (
	"testing"
	"time"

	"pgregory.net/rapid"

	"verifharness/vx"
)

func genC06(t *rapid.T) C06Scn {
	s := C06Scn{NPeers: rapid.IntRange(2, 4).Draw(t, "npeers")}
	n := rapid.IntRange(1, 25).Draw(t, "ndeliveries")
	for i := 0; i < n; i++ {
		d := C06Delivery{
			Link:   rapid.IntRange(0, 3).Draw(t, "link"),
			Origin: rapid.IntRange(0, 7).Draw(t, "origin"),
			Epoch:  rapid.IntRange(0, 2).Draw(t, "epoch"),
			Seq:    rapid.IntRange(0, 5).Draw(t, "seq"),
			Adj:    rapid.IntRange(0, 6).Draw(t, "adj"),
			Replay: -1,
		}
		if i > 0 && rapid.IntRange(0, 3).Draw(t, "isreplay") == 0 {
			d.Replay = rapid.IntRange(0, i-1).Draw(t, "replay")
		}
		if rapid.IntRange(0, 7).Draw(t, "issuspect") == 0 {
			d.Suspect = rapid.IntRange(1, 3).Draw(t, "suspect")
		}
		if rapid.IntRange(0, 3).Draw(t, "simultaneous") == 0 {
			d.Also = rapid.SliceOfN(rapid.IntRange(0, 3), 1, 3).Draw(t, "also")
			if rapid.Bool().Draw(t, "simremote") {
				d.Origin = rapid.IntRange(0, 2).Draw(t, "simorigin") // simultaneity applies to remote origins
			}
			if rapid.IntRange(0, 2).Draw(t, "simsuspect") == 0 {
				d.Suspect = rapid.IntRange(1, 3).Draw(t, "simsus")
			}
		}
		s.Deliveries = append(s.Deliveries, d)
	}
	if rapid.IntRange(0, 2).Draw(t, "burst") == 0 {
		// a run of fresh updates (rising sequence numbers, so each is accepted), every one arriving over all links at the same
		// moment: many attempts at the window between "have I seen this update?" and "now I have"
		k := rapid.IntRange(8, 24).Draw(t, "burstlen")
		origin := rapid.IntRange(0, 2).Draw(t, "burstorigin")
		for i := 0; i < k; i++ {
			s.Deliveries = append(s.Deliveries, C06Delivery{Link: i % 4, Origin: origin, Epoch: 2, Seq: 10 + i, Adj: i % 7, Replay: -1, Also: []int{0, 1, 2, 3}})
		}
	}
	return s
}

func TestC06(t *testing.T) {
	st := vx.NewStats("C06", "model", "one real node with 2-4 scripted peers; 1-25 deliveries (link, origin from {3 remote names, the peers, the node itself}, "+
		"epoch e0<e1<e2, sequence 0-5, adjacency from a pool, fresh or verbatim replay of an earlier delivery, optional suspected-duplicate notice, optionally the same update arriving on 2-4 links at the same moment; one scenario in three ends with a run of 8-24 fresh updates that each arrive on all links at once); reference model keeps "+
		"per origin the newest accepted (epoch, seq) and the seen IDs; oracle = KnownConnectionCosts snapshot before/after each delivery + relays seen by each peer; "+
		"non-trivial = a stale or replayed delivery follows an accepted one for the same origin (>=2 neighbours); distinct by canonical JSON")
	defer st.Flush()
	r := &vx.Runner{Name: "C06", Timeout: 120 * time.Second, Recycle: 200}
	defer r.Close()
	rapid.Check(t, func(t *rapid.T) {
		s := genC06(t)
		st.Judge(t, s, r.Run(s))
	})
}
