package netprops

import (
	"encoding/json"
	"fmt"
	"reflect"
	"sort"
	"sync"
	"time"

	"github.com/ansible/receptor/pkg/netceptor"

	"verifharness/vx"
)

// ---- scenario ----------------------------------------------------------------------------------------

type C02Link struct {
	A, B   int
	Chunks []int  `json:"chunks,omitempty"` // non-empty: framed byte stream cut into these read sizes; empty: datagram link
	Socket string `json:"socket,omitempty"` // "tcp" | "ws": the real backends on loopback through a re-chunking proxy
}

type C02Listener struct {
	Node int    `json:"node"`
	Svc  []byte `json:"svc"` // 1-8 non-zero bytes
}

type C02Send struct {
	From  int    `json:"from"`  // index of the listener whose socket sends
	To    int    `json:"to"`    // index of the listener addressed; -1-k: node k, service Ghost (nobody listens)
	Ghost []byte `json:"ghost,omitempty"`
	Len   int    `json:"len"`
	Fill  int    `json:"fill"` // 0 pseudo-random from the send index, 1 zeros, 2 0xff, 3 counter bytes
}

type C02Scn struct {
	IDs       []string      `json:"ids"` // node IDs (distinct, valid UTF-8, not localhost)
	Links     []C02Link     `json:"links"`
	Listeners []C02Listener `json:"listeners"`
	Sends     []C02Send     `json:"sends"`
	Batch     int           `json:"batch"` // sends are issued in concurrent batches of this size
}

func c02Payload(i int, sd C02Send) []byte {
	b := make([]byte, sd.Len)
	switch sd.Fill % 4 {
	case 0:
		x := uint64(i)*0x9E3779B97F4A7C15 + 12345
		for k := range b {
			x ^= x << 13
			x ^= x >> 7
			x ^= x << 17
			b[k] = byte(x)
		}
	case 1:
	case 2:
		for k := range b {
			b[k] = 0xff
		}
	case 3:
		for k := range b {
			b[k] = byte(k + i)
		}
	}
	return b
}

type c02Got struct {
	payload  string
	fromNode string
	fromSvc  string
}

func addrParts(a interface{}) (node, svc string) {
	v := reflect.ValueOf(a)
	if v.Kind() == reflect.Struct {
		return v.FieldByName("node").String(), v.FieldByName("service").String()
	}
	return "?", "?"
}

func execC02(b []byte) vx.Verdict {
	var s C02Scn
	if err := json.Unmarshal(b, &s); err != nil {
		return vx.Inconclusive("bad scenario: %v", err)
	}
	opts := vx.DefaultNodeOpts()
	m := vx.NewMesh(opts)
	defer m.Close()
	for _, id := range s.IDs {
		m.StartNode(id)
	}
	var edges []vx.Edge
	var links []*vx.Link
	anyStream, sockets := false, false
	for _, l := range s.Links {
		link := &vx.Link{A: s.IDs[l.A], B: s.IDs[l.B], CostA: 1, CostB: 1, Spec: vx.LinkSpec{Ordered: true, Frame: l.Chunks, Socket: l.Socket}}
		m.AddLink(link)
		links = append(links, link)
		edges = append(edges, vx.Edge{A: s.IDs[l.A], B: s.IDs[l.B], Cost: 1})
		if len(l.Chunks) > 0 || l.Socket != "" {
			anyStream = true
		}
		if l.Socket != "" {
			sockets = true
		}
	}
	exp := expectedTables(s.IDs, edges)
	if msg := vx.WaitFor(40*opts.RouteUpdate+15*time.Second, 50*time.Millisecond, func() string { return checkRouting(m, s.IDs, exp) }); msg != "" {
		return vx.Inconclusive("mesh did not converge: %s", msg)
	}
	time.Sleep(opts.RouteUpdate)
	// listeners
	socks := make([]netceptor.PacketConner, len(s.Listeners))
	var mu sync.Mutex
	got := make([][]c02Got, len(s.Listeners))
	bound := map[string]bool{}
	for i, l := range s.Listeners {
		node := s.IDs[l.Node%len(s.IDs)]
		key := node + "\x00" + string(l.Svc)
		if bound[key] {
			continue // the same (node, service) twice: second bind is refused by design; skip
		}
		pc, err := m.Node(node).N.ListenPacket(string(l.Svc))
		if err != nil {
			return vx.Violation("listen", "C02/listen-refused", "ListenPacket(%q) on %q: %v", l.Svc, node, err)
		}
		bound[key] = true
		socks[i] = pc
		go func(i int) {
			buf := make([]byte, 1<<16)
			for {
				n, addr, err := pc.ReadFrom(buf)
				if err != nil {
					return
				}
				fn, fs := addrParts(addr)
				mu.Lock()
				got[i] = append(got[i], c02Got{string(buf[:n]), fn, fs})
				mu.Unlock()
			}
		}(i)
	}
	// sends
	want := make([][]c02Got, len(s.Listeners))
	batch := s.Batch
	if batch < 1 {
		batch = 1
	}
	maxHops, bigPayload := 0, false
	labels := []string{}
	for start := 0; start < len(s.Sends); start += batch {
		end := start + batch
		if end > len(s.Sends) {
			end = len(s.Sends)
		}
		var wg sync.WaitGroup
		errs := make(chan string, end-start)
		for i := start; i < end; i++ {
			sd := s.Sends[i]
			fi := sd.From % len(s.Listeners)
			if socks[fi] == nil {
				continue
			}
			srcNode := s.IDs[s.Listeners[fi].Node%len(s.IDs)]
			var dstNode, dstSvc string
			if sd.To >= 0 {
				ti := sd.To % len(s.Listeners)
				if socks[ti] == nil {
					continue
				}
				dstNode, dstSvc = s.IDs[s.Listeners[ti].Node%len(s.IDs)], string(s.Listeners[ti].Svc)
				want[ti] = append(want[ti], c02Got{string(c02Payload(i, sd)), srcNode, string(s.Listeners[fi].Svc)})
				if d := len(exp[srcNode].dist); d >= 0 {
					if h := int(exp[srcNode].dist[dstNode]); h > maxHops {
						maxHops = h
					}
				}
				if srcNode == dstNode {
					labels = append(labels, "same-node-delivery")
				}
			} else {
				dstNode, dstSvc = s.IDs[(-1-sd.To)%len(s.IDs)], string(sd.Ghost)
				if bound[dstNode+"\x00"+dstSvc] || dstSvc == "ping" || dstSvc == "unreach" || len(dstSvc) == 0 {
					continue
				}
				labels = append(labels, "to-unbound-service")
			}
			if sd.Len > 1024 {
				bigPayload = true
			}
			wg.Add(1)
			go func(i int, sd C02Send, pc netceptor.PacketConner, n *netceptor.Netceptor) {
				defer wg.Done()
				p := c02Payload(i, sd)
				nw, err := pc.WriteTo(p, n.NewAddr(dstNode, dstSvc))
				// the net.PacketConn contract lets the caller reuse its buffer as soon as WriteTo has returned
				for k := range p {
					p[k] = 0xAA
				}
				if err != nil && sd.To >= 0 {
					errs <- fmt.Sprintf("send %d: WriteTo(%q:%q) from %q: %v", i, dstNode, dstSvc, srcNode, err)
				} else if err == nil && nw != sd.Len {
					errs <- fmt.Sprintf("send %d: WriteTo returned %d for %d bytes", i, nw, sd.Len)
				}
			}(i, sd, socks[fi], m.Node(srcNode).N)
		}
		wg.Wait()
		close(errs)
		for e := range errs {
			return vx.Violation("write", "C02/write-error", "%s", e)
		}
	}
	// wait until everything expected has arrived
	total := func() (int, int) {
		mu.Lock()
		defer mu.Unlock()
		g, w := 0, 0
		for i := range got {
			g += len(got[i])
			w += len(want[i])
		}
		return g, w
	}
	vx.WaitFor(30*time.Second, 10*time.Millisecond, func() string {
		if g, w := total(); g < w {
			return "waiting"
		}
		return ""
	})
	time.Sleep(300 * time.Millisecond)
	mu.Lock()
	defer mu.Unlock()
	key := func(g c02Got) string { return g.fromNode + "\x00" + g.fromSvc + "\x00" + g.payload }
	for i := range s.Listeners {
		if socks[i] == nil {
			continue
		}
		wm, gm := map[string]int{}, map[string]int{}
		for _, x := range want[i] {
			wm[key(x)]++
		}
		for _, x := range got[i] {
			gm[key(x)]++
		}
		who := fmt.Sprintf("listener %q on %q", s.Listeners[i].Svc, s.IDs[s.Listeners[i].Node%len(s.IDs)])
		for k, c := range gm {
			if wm[k] == 0 {
				// classify: wrong payload / wrong source / misdelivered
				var g c02Got
				for _, x := range got[i] {
					if key(x) == k {
						g = x
					}
				}
				sig := "C02/unexpected-datagram"
				for _, x := range want[i] {
					if x.fromNode == g.fromNode && x.fromSvc == g.fromSvc && len(x.payload) == len(g.payload) && gm[key(x)] < wm[key(x)] {
						sig = "C02/payload-altered"
					}
					if x.payload == g.payload && (x.fromNode != g.fromNode || x.fromSvc != g.fromSvc) {
						sig = "C02/wrong-source"
					}
				}
				return vx.CertainViolation("intact-only-addressee-true-source", sig, "%s received a datagram nobody sent to it: %d bytes from %q:%q (first bytes %x); it expected %d datagrams and got %d",
					who, len(g.payload), g.fromNode, g.fromSvc, head(g.payload, 16), len(want[i]), len(got[i]))
			}
			if c > wm[k] {
				return vx.CertainViolation("at-most-once", "C02/duplicated", "%s received a datagram %d times that was sent %d times", who, c, wm[k])
			}
		}
		for k, c := range wm {
			if gm[k] < c {
				parts := []string{}
				for _, x := range want[i] {
					if key(x) == k {
						parts = append(parts, fmt.Sprintf("%d bytes from %q:%q", len(x.payload), x.fromNode, x.fromSvc))
						break
					}
				}
				return vx.Violation("delivered", "C02/lost", "%s did not receive a datagram sent to it over reliable links within 30 s: %v (got %d of %d)", who, parts, len(got[i]), len(want[i]))
			}
		}
	}
	var splits int64
	for _, l := range links {
		splits += l.StreamSplits()
	}
	if sockets {
		labels = append(labels, "real-socket-links")
	}
	if anyStream {
		labels = append(labels, "stream-links")
		if splits > 0 {
			labels = append(labels, "frames-split-across-reads")
		}
	}
	labels = append(labels, fmt.Sprintf("maxhops=%d", maxHops))
	sort.Strings(labels)
	nontrivial := (maxHops >= 2 || (anyStream && splits > 0)) && bigPayload
	return vx.OK(nontrivial, dedup(labels)...)
}

func head(s string, n int) string {
	if len(s) > n {
		return s[:n]
	}
	return s
}

func init() { vx.Register("C02", execC02) }
