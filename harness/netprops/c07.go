package netprops

import (
	"context"
	"encoding/json"
	"fmt"
	"io"
	"net"
	"net/http"
	"sync"
	"time"

	"github.com/ansible/receptor/pkg/backends"
	"github.com/ansible/receptor/pkg/netceptor"
	"github.com/gorilla/websocket"

	"verifharness/vx"
)

// ---- scenario ----------------------------------------------------------------------------------------

// C07Msg is one datagram the hostile peer sends. The generator builds the bytes from a grammar; Class names the
// grammar production (for labels and evidence), Valid marks messages that are well-formed protocol.
type C07Msg struct {
	Class string `json:"c"`
	Data  []byte `json:"d"`
	Rep   int    `json:"rep,omitempty"` // Data repeated Rep times (for oversize payloads without bloating the scenario)
	GapMs int    `json:"gap,omitempty"`
}

type C07Scn struct {
	Transport string   `json:"transport"` // mem (datagram link) | frame (framed byte stream cut into chunks)
	Chunks    []int    `json:"chunks,omitempty"`
	Pre       []C07Msg `json:"pre"`       // before the handshake
	Handshake string   `json:"handshake"` // valid | none | as-w2 (announces the ID of a node that attaches later) | as-w (announces the ID of the connected well-behaved peer)
	Post      []C07Msg `json:"post"`      // after the handshake
}

const (
	c07SUT = "sut"
	c07W   = "w"
	c07W2  = "w2"
	c07H   = "h"
)

func (m C07Msg) bytes() []byte {
	if m.Rep <= 1 {
		return m.Data
	}
	out := make([]byte, 0, len(m.Data)*m.Rep)
	for i := 0; i < m.Rep; i++ {
		out = append(out, m.Data...)
	}
	return out
}

func execC07(b []byte) vx.Verdict {
	var s C07Scn
	if err := json.Unmarshal(b, &s); err != nil {
		return vx.Inconclusive("bad scenario: %v", err)
	}
	opts := vx.DefaultNodeOpts()
	m := vx.NewMesh(opts)
	defer m.Close()
	sut := m.StartNode(c07SUT)
	w := m.StartNode(c07W)
	goodLink := &vx.Link{A: c07SUT, B: c07W, CostA: 1, CostB: 1, Spec: vx.LinkSpec{Ordered: true}}
	m.AddLink(goodLink)
	// a bound and continuously read datagram service on the SUT
	echo, err := sut.N.ListenPacket("echo")
	if err != nil {
		return vx.Inconclusive("listen echo: %v", err)
	}
	go func() {
		buf := make([]byte, 1<<17)
		for {
			if _, _, err := echo.ReadFrom(buf); err != nil {
				return
			}
		}
	}()
	if msg := vx.WaitFor(20*time.Second, 20*time.Millisecond, func() string {
		if _, ok := w.N.Status().RoutingTable[c07SUT]; !ok {
			return "w has no route to sut"
		}
		if _, ok := sut.N.Status().RoutingTable[c07W]; !ok {
			return "sut has no route to w"
		}
		return ""
	}); msg != "" {
		return vx.Inconclusive("setup did not converge: %s", msg)
	}
	goodGen := goodLink.Generation()
	// ---- the hostile peer
	var hsend func(b []byte, raw bool)
	var hcut func()
	if s.Transport == "frame" {
		// receptor's own stream framing (as for TCP) over a chunking in-memory stream; the hostile end writes raw bytes
		sb := vx.NewStreamBackend()
		if err := sut.N.AddBackend(sb.EB, netceptor.BackendConnectionCost(1)); err != nil {
			return vx.Inconclusive("add backend: %v", err)
		}
		chunks := s.Chunks
		if len(chunks) == 0 {
			chunks = []int{7}
		}
		ca, cb := vx.NewChunkConnPair(nil, chunks) // bytes hostile->node are handed to the node in these pieces
		sb.Attach(ca)
		go func() {
			buf := make([]byte, 65536)
			for {
				if _, err := cb.Read(buf); err != nil {
					return
				}
			}
		}()
		hsend = func(b []byte, raw bool) {
			if !raw {
				b = vx.Frame(b)
			}
			_, _ = cb.Write(b)
		}
		hcut = func() { cb.Close(); ca.Close() }
	} else if s.Transport == "tcp" || s.Transport == "udp" || s.Transport == "ws" {
		// the real listeners of pkg/backends on loopback; the hostile end is a plain socket / websocket client
		port := freeTCPPort()
		addr := fmt.Sprintf("127.0.0.1:%d", port)
		var be netceptor.Backend
		var berr error
		switch s.Transport {
		case "tcp":
			be, berr = backends.NewTCPListener(addr, nil, sut.N.Logger)
		case "udp":
			be, berr = backends.NewUDPListener(addr, sut.N.Logger)
		default:
			be, berr = backends.NewWebsocketListener(addr, nil, sut.N.Logger, nil, nil)
		}
		if berr != nil {
			return vx.Inconclusive("backend: %v", berr)
		}
		if err := sut.N.AddBackend(be, netceptor.BackendConnectionCost(1)); err != nil {
			return vx.Inconclusive("add backend: %v", err)
		}
		time.Sleep(100 * time.Millisecond)
		switch s.Transport {
		case "tcp":
			c, err := net.DialTimeout("tcp", addr, 5*time.Second)
			if err != nil {
				return vx.Inconclusive("dial: %v", err)
			}
			go func() { _, _ = io.Copy(io.Discard, c) }()
			hsend = func(b []byte, raw bool) {
				if !raw {
					if len(b) > 65535 {
						b = b[:65535]
					}
					b = vx.Frame(b)
				}
				_ = c.SetWriteDeadline(time.Now().Add(5 * time.Second))
				_, _ = c.Write(b)
			}
			hcut = func() { c.Close() }
		case "udp":
			c, err := net.Dial("udp", addr)
			if err != nil {
				return vx.Inconclusive("dial: %v", err)
			}
			go func() { _, _ = io.Copy(io.Discard, c) }()
			hsend = func(b []byte, raw bool) {
				if len(b) > 60000 {
					b = b[:60000]
				}
				_, _ = c.Write(b)
			}
			hcut = func() { c.Close() }
		default:
			c, _, err := websocket.DefaultDialer.Dial("ws://"+addr+"/", http.Header{})
			if err != nil {
				return vx.Inconclusive("ws dial: %v", err)
			}
			go func() {
				for {
					if _, _, err := c.ReadMessage(); err != nil {
						return
					}
				}
			}()
			var wmu sync.Mutex
			hsend = func(b []byte, raw bool) {
				wmu.Lock()
				defer wmu.Unlock()
				_ = c.SetWriteDeadline(time.Now().Add(5 * time.Second))
				if raw {
					// websocket-level oddities instead of stream framing: text frames, pings with payload
					_ = c.WriteMessage(websocket.TextMessage, b)
					_ = c.WriteMessage(websocket.PingMessage, b[:minInt(len(b), 100)])
					return
				}
				_ = c.WriteMessage(websocket.BinaryMessage, b)
			}
			hcut = func() { c.Close() }
		}
	} else {
		be := vx.NewMemBackend()
		if err := sut.N.AddBackend(be, netceptor.BackendConnectionCost(1)); err != nil {
			return vx.Inconclusive("add backend: %v", err)
		}
		pair := vx.NewSessionPair(vx.LinkSpec{Ordered: true}, nil)
		if !be.Offer(pair.A, 5*time.Second) {
			return vx.Inconclusive("backend did not take the hostile session")
		}
		go func() { // drain whatever the SUT sends
			for {
				if _, err := pair.B.Recv(time.Second); err != nil && err != netceptor.ErrTimeout {
					return
				}
			}
		}()
		hsend = func(b []byte, raw bool) { _ = pair.B.Send(b) }
		hcut = pair.Cut
	}
	labels := []string{"transport:" + s.Transport, "handshake:" + s.Handshake}
	send := func(msgs []C07Msg, phase string) {
		for _, msg := range msgs {
			if msg.GapMs > 0 {
				time.Sleep(time.Duration(msg.GapMs) * time.Millisecond)
			}
			hsend(msg.bytes(), len(msg.Class) > 4 && msg.Class[:4] == "raw-")
			labels = append(labels, phase+":"+msg.Class)
		}
	}
	send(s.Pre, "pre")
	established := false
	hid := c07H
	if s.Handshake == "as-w2" {
		hid = c07W2
	}
	if s.Handshake == "as-w" {
		hello := vx.EncodeRoute(&vx.RoutingUpdate{NodeID: c07W, UpdateID: "hs-imp", UpdateEpoch: 7 << 24, UpdateSequence: 1,
			Connections: map[string]float64{c07SUT: 1}, ForwardingNode: c07W})
		hsend(hello, false)
		time.Sleep(300 * time.Millisecond)
		labels = append(labels, "impostor-of-connected-peer")
	} else if s.Handshake != "none" {
		hello := vx.EncodeRoute(&vx.RoutingUpdate{NodeID: hid, UpdateID: "hs-1", UpdateEpoch: 7 << 24, UpdateSequence: 1,
			Connections: map[string]float64{c07SUT: 1}, ForwardingNode: hid})
		hsend(hello, false)
		established = vx.WaitFor(5*time.Second, 5*time.Millisecond, func() string {
			var st netceptor.Status
			if !vx.WithDeadline(5*time.Second, func() { st = sut.N.Status() }) {
				return "status blocked"
			}
			for _, c := range st.Connections {
				if c.NodeID == hid {
					return ""
				}
			}
			return "not established"
		}) == ""
		if established {
			labels = append(labels, "established")
		}
	}
	send(s.Post, "post")
	time.Sleep(150 * time.Millisecond)
	// ---- the hostile peer goes away; from here on the node must serve its well-behaved peers
	hcut()

	var st netceptor.Status
	if !vx.WithDeadline(5*time.Second, func() { st = sut.N.Status() }) {
		return vx.Violation("not-wedged", "C07/status-blocked", "Status() of the node did not return within 5 s after the hostile session (messages: %s)", classes(s))
	}
	// the well-behaved peer's own session was left alone: nothing another peer sends is a reason to drop it
	if g := goodLink.Generation(); g != goodGen {
		return vx.Violation("still-serves-peers", "C07/good-peer-session-dropped", "the session between the node and its well-behaved peer was ended and re-established %d time(s) during the hostile session (messages: %s)", g-goodGen, classes(s))
	}
	listed := false
	for _, cn := range st.Connections {
		listed = listed || cn.NodeID == c07W
	}
	if !listed {
		return vx.Violation("still-serves-peers", "C07/good-peer-connection-forgotten", "right after the hostile session the node no longer lists its well-behaved peer (whose session never ended) among its connections: %v (messages: %s)", st.Connections, classes(s))
	}
	// w still reaches the node
	if msg := pingUntil(w.N, c07SUT, 25*time.Second); msg != "" {
		return vx.Violation("still-serves-peers", "C07/old-peer-cannot-ping", "the well-behaved peer can no longer ping the node: %s (messages: %s)", msg, classes(s))
	}
	// a fresh peer becomes routable and traffic is routed through the node
	w2 := m.StartNode(c07W2)
	m.AddLink(&vx.Link{A: c07SUT, B: c07W2, CostA: 1, CostB: 1, Spec: vx.LinkSpec{Ordered: true}})
	if msg := vx.WaitFor(40*opts.RouteUpdate+15*time.Second, 50*time.Millisecond, func() string {
		var rt map[string]string
		if !vx.WithDeadline(5*time.Second, func() { rt = sut.N.Status().RoutingTable }) {
			return "Status() blocked"
		}
		if rt[c07W2] != c07W2 {
			return fmt.Sprintf("node's routing table has no direct route to the fresh peer: %v", rt)
		}
		return ""
	}); msg != "" {
		return vx.Violation("still-routes", "C07/fresh-peer-not-routable", "%s (messages: %s)", msg, classes(s))
	}
	if msg := pingUntil(w.N, c07W2, 30*time.Second); msg != "" {
		return vx.Violation("still-routes", "C07/no-transit", "old peer cannot ping the fresh peer through the node: %s (messages: %s)", msg, classes(s))
	}
	if msg := pingUntil(w2.N, c07W, 30*time.Second); msg != "" {
		return vx.Violation("still-routes", "C07/no-transit", "fresh peer cannot ping the old peer through the node: %s (messages: %s)", msg, classes(s))
	}
	malformedAfter := false
	for _, p := range s.Post {
		if p.Class != "valid-route" && p.Class != "valid-ad" && p.Class != "valid-data" {
			malformedAfter = true
		}
	}
	return vx.OK((established && malformedAfter) || s.Handshake == "as-w", dedup(labels)...)
}

func classes(s C07Scn) string {
	var out []string
	for _, m := range s.Pre {
		out = append(out, "pre:"+m.Class)
	}
	out = append(out, "handshake:"+s.Handshake)
	for _, m := range s.Post {
		out = append(out, "post:"+m.Class)
	}
	return fmt.Sprint(out)
}

// pingUntil pings until success or the deadline; "" on success, last error otherwise.
func pingUntil(n *netceptor.Netceptor, target string, d time.Duration) string {
	end := time.Now().Add(d)
	last := ""
	for time.Now().Before(end) {
		ctx, cancel := context.WithTimeout(context.Background(), 3*time.Second)
		var err error
		ok := vx.WithDeadline(6*time.Second, func() { _, _, err = n.Ping(ctx, target, 20) })
		cancel()
		if ok && err == nil {
			return ""
		}
		if !ok {
			last = "Ping call blocked"
		} else {
			last = err.Error()
		}
		time.Sleep(100 * time.Millisecond)
	}
	return last
}

func init() { vx.Register("C07", execC07) }

func freeTCPPort() int {
	l, err := net.Listen("tcp", "127.0.0.1:0")
	if err != nil {
		return 0
	}
	defer l.Close()
	return l.Addr().(*net.TCPAddr).Port
}

func minInt(a, b int) int {
	if a < b {
		return a
	}
	return b
}
