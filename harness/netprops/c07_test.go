package netprops

import (
	"fmt"
	"sort"
	"strings"
	"testing"
	"time"

	"pgregory.net/rapid"

	"verifharness/vx"
)

// ---- JSON value grammar -------------------------------------------------------------------------------

var weirdJSON = []string{
	`null`, `0`, `1`, `-1`, `1.5`, `1e308`, `-1e308`, `1e999`, `18446744073709551616`, `-9223372036854775809`, `""`, `"x"`, `"` + strings.Repeat("A", 3000) + `"`,
	`true`, `false`, `[]`, `[1]`, `["a"]`, `[[]]`, `{}`, `{"a":1}`, `{"a":{"b":{}}}`, `"\u0000"`, `"\ud800"`, strings.Repeat("[", 2000) + strings.Repeat("]", 2000),
	strings.Repeat(`{"a":`, 500) + `1` + strings.Repeat(`}`, 500),
}

type kv struct{ k, v string }

func objJSON(fields []kv) string {
	var sb strings.Builder
	sb.WriteByte('{')
	for i, f := range fields {
		if i > 0 {
			sb.WriteByte(',')
		}
		fmt.Fprintf(&sb, "%q:%s", f.k, f.v)
	}
	sb.WriteByte('}')
	return sb.String()
}

// mutateFields replaces / removes / duplicates up to two fields.
func mutateFields(t *rapid.T, fields []kv) ([]kv, bool) {
	n := rapid.SampledFrom([]int{0, 1, 1, 1, 2}).Draw(t, "nsub")
	out := append([]kv{}, fields...)
	changed := false
	for i := 0; i < n && len(out) > 0; i++ {
		idx := rapid.IntRange(0, len(out)-1).Draw(t, "field")
		switch rapid.IntRange(0, 9).Draw(t, "subkind") {
		case 0:
			out = append(out[:idx], out[idx+1:]...) // missing
		case 1:
			out = append(out, kv{out[idx].k, rapid.SampledFrom(weirdJSON).Draw(t, "dupval")}) // duplicate key, last wins
		case 2:
			out[idx].k = strings.ToLower(out[idx].k) // Go matches keys case-insensitively
		default:
			out[idx].v = rapid.SampledFrom(weirdJSON).Draw(t, "weird")
		}
		changed = true
	}
	return out, changed
}

var c07Nodes = []string{"h", "p1", "p2", "p3", "sut", "w", "w2", "", "localhost", strings.Repeat("n", 300), "é\u0000x"}

func genConnections(t *rapid.T) (string, string) {
	switch rapid.IntRange(0, 11).Draw(t, "connkind") {
	case 0:
		return `{}`, "conn-empty"
	case 1:
		return `{"sut":1}`, "conn-plain"
	case 2:
		return `{"sut":1,"p1":1,"p2":2}`, "conn-plain"
	case 3:
		return fmt.Sprintf(`{"sut":1,"p1":%s}`, rapid.SampledFrom([]string{"-1", "-0.5", "-1e300", "0", "-0"}).Draw(t, "neg")), "conn-nonpositive"
	case 4:
		return fmt.Sprintf(`{"sut":1,"p1":%s}`, rapid.SampledFrom([]string{"1e308", "1.7976931348623157e308", "5e-324", "1e-300"}).Draw(t, "huge")), "conn-extreme"
	case 5:
		o := rapid.SampledFrom(c07Nodes).Draw(t, "selfloop")
		return fmt.Sprintf(`{"sut":1,%q:1}`, o), "conn-odd-names"
	case 6:
		var parts []string
		n := rapid.SampledFrom([]int{200, 3000}).Draw(t, "many")
		for i := 0; i < n; i++ {
			parts = append(parts, fmt.Sprintf(`"m%d":%d`, i, 1+i%7))
		}
		return `{"sut":1,` + strings.Join(parts, ",") + `}`, "conn-many"
	case 7:
		return `{"sut":1,"w":0.001,"w2":0.001}`, "conn-claims-good-nodes"
	case 8:
		return `{"sut":-1,"p1":-1,"p2":-1,"p3":-1}`, "conn-all-negative"
	case 9:
		return `{"":1,"sut":1}`, "conn-empty-name"
	default:
		return rapid.SampledFrom(weirdJSON).Draw(t, "connweird"), "conn-wrong-type"
	}
}

func genRoute(t *rapid.T, hid string, post bool) C07Msg {
	// Origins never include the two well-behaved peers: routing updates are unauthenticated by design, so a forged update
	// "from w2" with a huge epoch makes every node that hears it ignore the real w2 for good. That is a property of the
	// flooding protocol (trust in admitted peers), not a crash or wedge of the receiving node, and C07 does not claim
	// otherwise; the liveness probes use w and w2, so their identities are left alone (see DESIGN.md, C07 false alarm).
	origin := rapid.SampledFrom([]string{hid, hid, "p1", "p1", "p2", "p3", "sut", "", "localhost"}).Draw(t, "origin")
	conns, cclass := genConnections(t)
	if origin == hid && (cclass == "conn-empty" || cclass == "conn-wrong-type") && rapid.Bool().Draw(t, "keepadmissible") {
		conns, cclass = `{"sut":1,"p1":1}`, "conn-plain"
	}
	epoch := rapid.SampledFrom([]string{"117440512", "117440513", "1", "0", "18446744073709551615", "9223372036854775808"}).Draw(t, "epoch")
	seq := rapid.SampledFrom([]string{"1", "2", "3", "50", "0", "18446744073709551615"}).Draw(t, "seq")
	fwd := hid
	if rapid.IntRange(0, 14).Draw(t, "fwdodd") == 0 {
		fwd = rapid.SampledFrom(c07Nodes).Draw(t, "fwd")
	}
	sus := "0"
	if rapid.IntRange(0, 5).Draw(t, "sus") == 0 {
		sus = rapid.SampledFrom([]string{"1", "117440512", "18446744073709551615"}).Draw(t, "susv")
	}
	fields := []kv{{"NodeID", fmt.Sprintf("%q", origin)}, {"UpdateID", fmt.Sprintf("%q", rapid.StringMatching(`[a-z]{1,8}`).Draw(t, "uid"))},
		{"UpdateEpoch", epoch}, {"UpdateSequence", seq}, {"Connections", conns}, {"ForwardingNode", fmt.Sprintf("%q", fwd)}, {"SuspectedDuplicate", sus}}
	fields, changed := mutateFields(t, fields)
	class := "route:" + cclass
	if changed {
		class = "route:field-substituted"
	} else if cclass == "conn-plain" && fwd == hid {
		class = "valid-route"
	}
	return C07Msg{Class: class, Data: append([]byte{1}, objJSON(fields)...)}
}

// negative-cost cycle among phantom nodes, delivered as a set of updates
func genCycle(t *rapid.T, hid string) []C07Msg {
	k := rapid.IntRange(2, 3).Draw(t, "cyclelen")
	cost := rapid.SampledFrom([]string{"-1", "-0.25", "0", "-1e300"}).Draw(t, "cyclecost")
	var out []C07Msg
	for i := 0; i < k; i++ {
		a, b := fmt.Sprintf("p%d", i+1), fmt.Sprintf("p%d", (i+1)%k+1)
		conn := fmt.Sprintf(`{%q:%s}`, b, cost)
		if i == 0 {
			conn = fmt.Sprintf(`{%q:%s,"sut":1}`, b, cost)
		}
		f := []kv{{"NodeID", fmt.Sprintf("%q", a)}, {"UpdateID", fmt.Sprintf("%q", "cyc"+a)}, {"UpdateEpoch", "117440512"}, {"UpdateSequence", "9"},
			{"Connections", conn}, {"ForwardingNode", fmt.Sprintf("%q", hid)}, {"SuspectedDuplicate", "0"}}
		out = append(out, C07Msg{Class: "route:cost-cycle(" + cost + ")", Data: append([]byte{1}, objJSON(f)...)})
	}
	// and the peer itself claims the first phantom as a neighbour so that the cycle is reachable
	f := []kv{{"NodeID", fmt.Sprintf("%q", hid)}, {"UpdateID", `"cych"`}, {"UpdateEpoch", "117440512"}, {"UpdateSequence", "77"},
		{"Connections", `{"sut":1,"p1":1}`}, {"ForwardingNode", fmt.Sprintf("%q", hid)}, {"SuspectedDuplicate", "0"}}
	out = append(out, C07Msg{Class: "valid-route", Data: append([]byte{1}, objJSON(f)...)})
	return out
}

func genAd(t *rapid.T) C07Msg {
	switch rapid.IntRange(0, 9).Draw(t, "adshape") {
	case 0:
		return C07Msg{Class: "ad:no-embedded-fields", Data: append([]byte{2}, rapid.SampledFrom([]string{`{"Cancel":true}`, `{"Cancel":false}`, `{}`, `{"cancel":1}`, `{"Other":1}`}).Draw(t, "bare")...)}
	case 1:
		return C07Msg{Class: "ad:top-level-shape", Data: append([]byte{2}, rapid.SampledFrom(weirdJSON).Draw(t, "top")...)}
	}
	tm := rapid.SampledFrom([]string{`"2024-01-01T00:00:00Z"`, `"9999-12-31T23:59:59.999999999Z"`, `"0001-01-01T00:00:00Z"`, `"2024-01-01"`, `"not a time"`, `12345`, `null`}).Draw(t, "time")
	tags := rapid.SampledFrom([]string{`null`, `{}`, `{"a":"b"}`, `{"a":1}`, `[]`, `"x"`, `{"":""}`}).Draw(t, "tags")
	wc := rapid.SampledFrom([]string{`null`, `[]`, `[{"WorkType":"x","Secure":true}]`, `[{"WorkType":1}]`, `[null]`, `{}`, `[[]]`}).Draw(t, "wc")
	fields := []kv{{"NodeID", fmt.Sprintf("%q", rapid.SampledFrom(c07Nodes).Draw(t, "adnode"))}, {"Service", fmt.Sprintf("%q", rapid.SampledFrom([]string{"svc", "", "echo", "ping", strings.Repeat("s", 100)}).Draw(t, "adsvc"))},
		{"Time", tm}, {"ConnType", rapid.SampledFrom([]string{"0", "1", "2", "255", "256", "-1"}).Draw(t, "ct")}, {"Tags", tags}, {"WorkCommands", wc},
		{"Cancel", rapid.SampledFrom([]string{"false", "true"}).Draw(t, "cancel")}}
	fields, changed := mutateFields(t, fields)
	class := "ad:field-values"
	if changed {
		class = "ad:field-substituted"
	}
	return C07Msg{Class: class, Data: append([]byte{2}, objJSON(fields)...)}
}

func genData(t *rapid.T) C07Msg {
	names := []string{"sut", "sut", "w", "w", "w2", "h", "p1", "nobody-knows-this-name", ""}
	svcs := []string{"ping", "unreach", "echo", "nope", "", "control", "\xff\xfe"}
	from, to := rapid.SampledFrom(names).Draw(t, "from"), rapid.SampledFrom(names).Draw(t, "to")
	fs, ts := rapid.SampledFrom(svcs).Draw(t, "fs"), rapid.SampledFrom(svcs).Draw(t, "ts")
	if rapid.IntRange(0, 5).Draw(t, "reserved-pair") == 0 {
		// reserved services talking to reserved services, between and within the good nodes
		from, to = rapid.SampledFrom([]string{"sut", "w"}).Draw(t, "rfrom"), rapid.SampledFrom([]string{"sut", "w"}).Draw(t, "rto")
		fs, ts = rapid.SampledFrom([]string{"ping", "unreach"}).Draw(t, "rfs"), rapid.SampledFrom([]string{"ping", "unreach"}).Draw(t, "rts")
	}
	ttl := byte(rapid.SampledFrom([]int{0, 1, 2, 30, 255}).Draw(t, "ttl"))
	var payload []byte
	switch rapid.IntRange(0, 5).Draw(t, "payload") {
	case 0:
	case 1:
		payload = []byte(`{"FromNode":"w","ToNode":"sut","FromService":"x","ToService":"y","Problem":"service unknown"}`)
	case 2:
		payload = []byte(rapid.SampledFrom(weirdJSON).Draw(t, "pweird"))
	case 3:
		payload = rapid.SliceOfN(rapid.Byte(), 1, 64).Draw(t, "prand")
	default:
		payload = []byte("hello")
	}
	pkt := vx.EncodeData(from, fs, to, ts, ttl, payload)
	class := "data:" + ts
	if ts == "" || ts == "\xff\xfe" {
		class = "data:odd-service"
	}
	if rapid.IntRange(0, 2).Draw(t, "truncate") == 0 {
		// header field boundaries (type+ttl 4, hashes 12 and 20, service names 28 and 36) are where length guards go wrong
		n := rapid.OneOf(rapid.SampledFrom([]int{1, 2, 3, 4, 5, 11, 12, 13, 19, 20, 21, 27, 28, 29, 32, 35, 36, 37}), rapid.IntRange(1, 40)).Draw(t, "len")
		if n < len(pkt) {
			pkt = pkt[:n]
			class = "data:truncated-header"
		}
	}
	rep := 0
	if rapid.IntRange(0, 19).Draw(t, "big") == 0 {
		return C07Msg{Class: "data:oversize", Data: vx.EncodeData(from, fs, to, ts, ttl, []byte(strings.Repeat("B", 1000))), Rep: rapid.SampledFrom([]int{17, 70, 1100}).Draw(t, "rep")}
	}
	if class == "data:echo" && to == "sut" {
		class = "valid-data"
	}
	return C07Msg{Class: class, Data: pkt, Rep: rep}
}

func genMisc(t *rapid.T) C07Msg {
	switch rapid.IntRange(0, 7).Draw(t, "misc") {
	case 0:
		return C07Msg{Class: "empty-datagram", Data: []byte{}}
	case 1:
		return C07Msg{Class: "type-byte-only", Data: []byte{byte(rapid.IntRange(0, 255).Draw(t, "tb"))}}
	case 2:
		return C07Msg{Class: "unknown-type", Data: append([]byte{byte(rapid.IntRange(4, 255).Draw(t, "ut"))}, rapid.SliceOfN(rapid.Byte(), 0, 50).Draw(t, "ub")...)}
	case 3:
		return C07Msg{Class: "reject", Data: append([]byte{3}, rapid.SampledFrom([]string{"[]", "", "null", "{"}).Draw(t, "rj")...)}
	case 4:
		return C07Msg{Class: "route:bad-json", Data: append([]byte{1}, rapid.SampledFrom([]string{"", "{", `{"NodeID":"p1"`, `{"NodeID":"\xff\xfe"}`, "\x00\x00\x00", `{"NodeID":"p1","Connections":{"a":1,}}`}).Draw(t, "bj")...)}
	case 5:
		return C07Msg{Class: "route:top-level-shape", Data: append([]byte{1}, rapid.SampledFrom(weirdJSON).Draw(t, "rtop")...)}
	case 6:
		return C07Msg{Class: "oversize-route", Data: append([]byte{1}, []byte(`{"NodeID":"`+strings.Repeat("x", 1000))...), Rep: 70}
	default:
		return C07Msg{Class: "random-bytes", Data: rapid.SliceOfN(rapid.Byte(), 1, 80).Draw(t, "rb")}
	}
}

func genRawStream(t *rapid.T) C07Msg {
	switch rapid.IntRange(0, 3).Draw(t, "raw") {
	case 0:
		return C07Msg{Class: "raw-zero-length-frame", Data: []byte{0, 0}}
	case 1:
		return C07Msg{Class: "raw-lying-prefix", Data: append([]byte{0xff, 0xff}, rapid.SliceOfN(rapid.Byte(), 0, 30).Draw(t, "lp")...)}
	case 2:
		return C07Msg{Class: "raw-one-byte", Data: []byte{byte(rapid.IntRange(0, 255).Draw(t, "ob"))}}
	default:
		return C07Msg{Class: "raw-short-frames", Data: []byte{1, 0, 1, 1, 0, 2, 1, 0, 0, 1, 0, 3}}
	}
}

func genMsgs(t *rapid.T, hid string, post bool, frame bool, n int) []C07Msg {
	var out []C07Msg
	for len(out) < n {
		k := rapid.IntRange(0, 11).Draw(t, "msgkind")
		switch {
		case k < 4:
			out = append(out, genRoute(t, hid, post))
		case k < 6:
			out = append(out, genAd(t))
		case k < 8:
			out = append(out, genData(t))
		case k < 10:
			out = append(out, genMisc(t))
		case k == 10 && post:
			out = append(out, genCycle(t, hid)...)
		case frame:
			out = append(out, genRawStream(t))
		default:
			out = append(out, genMisc(t))
		}
	}
	for i := range out {
		if rapid.IntRange(0, 5).Draw(t, "gap") == 0 {
			out[i].GapMs = rapid.SampledFrom([]int{5, 30, 120}).Draw(t, "gapms")
		}
	}
	return out
}

func genC07(t *rapid.T) C07Scn {
	s := C07Scn{Transport: rapid.SampledFrom([]string{"mem", "mem", "frame", "tcp", "udp", "ws"}).Draw(t, "transport"),
		Handshake: rapid.SampledFrom([]string{"valid", "valid", "valid", "valid", "valid", "none", "as-w"}).Draw(t, "handshake")}
	if s.Transport == "frame" {
		s.Chunks = rapid.SliceOfN(rapid.SampledFrom([]int{1, 1, 2, 3, 7, 36, 37, 100, 4096, 65536}), 1, 5).Draw(t, "chunks")
	}
	hid := c07H
	if s.Handshake == "as-w2" {
		hid = c07W2
	}
	if s.Handshake == "as-w" {
		// an impostor: its first routing update announces the ID of the well-behaved peer that is connected already; the node
		// refuses the session, whatever follows goes into a closed session
		s.Post = genMsgs(t, hid, true, s.Transport == "frame" || s.Transport == "tcp" || s.Transport == "ws", rapid.IntRange(1, 3).Draw(t, "npost-imp"))
		return s
	}
	s.Pre = genMsgs(t, hid, false, s.Transport == "frame" || s.Transport == "tcp" || s.Transport == "ws", rapid.IntRange(0, 3).Draw(t, "npre"))
	s.Post = genMsgs(t, hid, true, s.Transport == "frame" || s.Transport == "tcp" || s.Transport == "ws", rapid.IntRange(1, 8).Draw(t, "npost"))
	return s
}

func TestC07(t *testing.T) {
	st := vx.NewStats("C07", "peer", "a real node with one well-behaved real peer and a hostile scripted peer on an in-memory datagram link, on receptor's stream framing over a chunking byte stream, or on the real TCP / UDP / websocket listeners of pkg/backends on loopback; "+
		"0-3 messages before and 1-8 after an optional correct handshake (or, one scenario in seven, a handshake that announces the ID of the connected well-behaved peer), drawn from a grammar: routing updates / advertisements with 0-2 fields removed, duplicated, case-changed or replaced by JSON of "+
		"every shape, absurd connection maps (non-positive, extreme, thousands, cycles of non-positive cost among phantom nodes, claims about good nodes), wrong top-level shapes, bad JSON, data packets "+
		"with every header combination / truncation / oversize, reject, unknown types, empty datagram, lying or zero-length stream frames; oracle after the hostile session ended: process alive, Status() "+
		"answers in 5 s, the old peer pings the node, a fresh peer becomes routable and both peers ping each other through the node; non-trivial = handshake completed and >= 1 malformed message after it, or an impostor handshake")
	defer st.Flush()
	r := &vx.Runner{Name: "C07", Timeout: 240 * time.Second, Recycle: 60}
	defer r.Close()
	rapid.Check(t, func(t *rapid.T) {
		s := genC07(t)
		st.Judge(t, s, r.Run(s))
	})
	_ = sort.Strings
}
