package netprops

import (
	"context"
	"crypto/rand"
	"crypto/sha256"
	"crypto/sha512"
	"crypto/tls"
	"crypto/x509"
	"crypto/x509/pkix"
	"encoding/asn1"
	"encoding/hex"
	"encoding/json"
	"fmt"
	"io"
	"net"
	"os"
	"path/filepath"
	"strings"
	"sync"
	"time"

	"github.com/ansible/receptor/pkg/logger"
	"github.com/ansible/receptor/pkg/netceptor"

	"verifharness/vx"
)

// ---- attribute space ------------------------------------------------------------------------------------

var (
	c09CAs   = []string{"trusted", "via-inter", "inter-missing", "other-ca", "same-name-other-key", "self-signed"}
	c09Vals  = []string{"valid", "expired", "not-yet"}
	c09EKUs  = []string{"server", "client", "both", "absent", "unrelated", "any"}
	c09Names = []string{"expected", "other", "several-incl", "several-excl", "none", "dns-only", "rid-only", "malformed", "near-miss", "foreign-oid"}
	c09Pins  = []string{"none", "m256", "m512", "m224", "m384", "non32", "non64", "wrong20", "non32+m256", "m512+non32", "non32+wrong20", "wrong20+m256", "pin-of-issuer"}
	c09Roles = []string{"server", "client"} // who is being verified
	c09Modes = []string{"receptor", "dns-host", "dns-nohost"}
)

type C09Cert struct {
	CA    string `json:"ca"`
	Val   string `json:"val"`
	EKU   string `json:"eku"`
	Names string `json:"names"`
}

type C09Scn struct {
	Cert C09Cert   `json:"cert"` // the certificate the pin list is computed from ("the pinned certificate"), presented first
	Pins string    `json:"pins"`
	Role string    `json:"role"`
	Mode string    `json:"mode"`
	Then []C09Cert `json:"then,omitempty"` // further peers presented afterwards to the SAME verifier / configuration
}

const (
	c09ID   = "node-x"
	c09Host = "x.example.com"
)

type c09Made struct {
	leaf  *x509.Certificate
	chain [][]byte // leaf (+ intermediate) as presented
	key   interface{}
	ids   []string
	dns   []string
	malf  bool
	foreign []string // values carried in otherName entries of a non-receptor OID (never receptor names)
	issuerRaw []byte
}

var (
	c09Mu    sync.Mutex
	c09Cache = map[C09Cert]*c09Made{}
	c09Root, c09Inter, c09Other, c09Same *vx.TestCA
	c09Logger *logger.ReceptorLogger
)

func c09Init() {
	if c09Root != nil {
		return
	}
	c09Root = vx.NewCA("verif root", "root", nil)
	c09Inter = vx.NewCA("verif intermediate", "inter", c09Root)
	c09Other = vx.NewCA("some other root", "other", nil)
	c09Same = vx.NewCA("verif root", "same", nil) // same subject as the trusted root, different key
	c09Logger = logger.NewReceptorLogger("c09")
}

func sanExtension(ids, dns []string, malformed bool, foreign ...string) *pkix.Extension {
	var content []byte
	for _, v := range foreign {
		content = append(content, DerItem{Kind: "on", OID: "other", StrTag: 12, Class: 2, Val: v}.encode()...)
		content = append(content, DerItem{Kind: "on", OID: "longer", StrTag: 12, Class: 2, Val: v}.encode()...)
	}
	for _, d := range dns {
		content = append(content, derTLV(2, false, 2, []byte(d), false)...)
	}
	for _, id := range ids {
		content = append(content, DerItem{Kind: "on", OID: "receptor", StrTag: 12, Class: 2, Val: id}.encode()...)
	}
	if malformed {
		content = append(content, DerItem{Kind: "on", OID: "receptor", StrTag: 2, Class: 2, Val: "\x05"}.encode()...)
	}
	if len(content) == 0 {
		return nil
	}
	return &pkix.Extension{Id: asn1.ObjectIdentifier{2, 5, 29, 17}, Value: derTLV(0, true, 16, content, false)}
}

func c09Make(c C09Cert) *c09Made {
	c09Mu.Lock()
	defer c09Mu.Unlock()
	c09Init()
	if m, ok := c09Cache[c]; ok {
		return m
	}
	m := &c09Made{}
	switch c.Names {
	case "expected":
		m.ids, m.dns = []string{c09ID}, []string{c09Host}
	case "other":
		m.ids, m.dns = []string{"node-y"}, []string{"y.example.com"}
	case "several-incl":
		m.ids, m.dns = []string{"node-y", c09ID, "node-z"}, []string{"y.example.com", c09Host}
	case "several-excl":
		m.ids, m.dns = []string{"node-y", "node-z"}, []string{"y.example.com", "z.example.com"}
	case "none":
	case "dns-only":
		m.dns = []string{c09Host}
	case "rid-only":
		m.ids = []string{c09ID}
	case "malformed":
		m.dns, m.malf = []string{c09Host}, true
	case "foreign-oid":
		// the expected ID appears only under other OIDs (one unrelated, one an extension of the receptor OID)
		m.ids, m.dns, m.foreign = []string{"node-y"}, []string{c09Host}, []string{c09ID}
	case "near-miss":
		m.ids, m.dns = []string{c09ID + "2", "node-", "Node-X", c09ID + " "}, []string{"xx.example.com", "example.com", "x.example.com.evil.org"}
	}
	now := time.Now()
	tmpl := &x509.Certificate{SerialNumber: newSerial(), Subject: pkix.Name{CommonName: c09Host},
		NotBefore: now.Add(-48 * time.Hour), NotAfter: now.Add(48 * time.Hour), KeyUsage: x509.KeyUsageDigitalSignature}
	switch c.Val {
	case "expired":
		tmpl.NotAfter = now.Add(-2 * time.Hour)
	case "not-yet":
		tmpl.NotBefore = now.Add(2 * time.Hour)
	}
	switch c.EKU {
	case "server":
		tmpl.ExtKeyUsage = []x509.ExtKeyUsage{x509.ExtKeyUsageServerAuth}
	case "client":
		tmpl.ExtKeyUsage = []x509.ExtKeyUsage{x509.ExtKeyUsageClientAuth}
	case "both":
		tmpl.ExtKeyUsage = []x509.ExtKeyUsage{x509.ExtKeyUsageClientAuth, x509.ExtKeyUsageServerAuth}
	case "unrelated":
		tmpl.ExtKeyUsage = []x509.ExtKeyUsage{x509.ExtKeyUsageCodeSigning, x509.ExtKeyUsageEmailProtection}
	case "any":
		tmpl.ExtKeyUsage = []x509.ExtKeyUsage{x509.ExtKeyUsageAny}
	}
	if ext := sanExtension(m.ids, m.dns, m.malf, m.foreign...); ext != nil {
		tmpl.ExtraExtensions = []pkix.Extension{*ext}
	}
	leafKey := vx.Key("c09leaf")
	var issuer *vx.TestCA
	switch c.CA {
	case "trusted":
		issuer = c09Root
	case "via-inter", "inter-missing":
		issuer = c09Inter
	case "other-ca":
		issuer = c09Other
	case "same-name-other-key":
		issuer = c09Same
	}
	var der []byte
	var err error
	if issuer == nil {
		der, err = x509.CreateCertificate(rand.Reader, tmpl, tmpl, &leafKey.PublicKey, leafKey)
	} else {
		der, err = x509.CreateCertificate(rand.Reader, tmpl, issuer.Cert, &leafKey.PublicKey, issuer.Key)
		m.issuerRaw = issuer.Cert.Raw
	}
	if err != nil {
		panic(err)
	}
	m.leaf, err = x509.ParseCertificate(der)
	if err != nil {
		panic(err)
	}
	m.key = leafKey
	m.chain = [][]byte{der}
	if c.CA == "via-inter" {
		m.chain = append(m.chain, c09Inter.Cert.Raw)
	}
	c09Cache[c] = m
	return m
}

var serialCtr int64 = 5000

func newSerial() *bigInt { serialCtr++; return bigFrom(serialCtr) }

func sum(kind string, b []byte) []byte {
	switch kind {
	case "224":
		s := sha256.Sum224(b)
		return s[:]
	case "256":
		s := sha256.Sum256(b)
		return s[:]
	case "384":
		s := sha512.Sum384(b)
		return s[:]
	}
	s := sha512.Sum512(b)
	return s[:]
}

// c09PinList returns the pin list and the reference judgement: +1 must pass, -1 must refuse, 0 unconstrained.
func c09PinList(kind string, m *c09Made) (pins [][]byte, judge int) {
	non := func(n int) []byte { b := make([]byte, n); for i := range b { b[i] = byte(i*7 + 3) }; return b }
	anyMatch, anyWrong := false, false
	for _, p := range strings.Split(kind, "+") {
		switch p {
		case "none":
		case "m256":
			pins = append(pins, sum("256", m.leaf.Raw)); anyMatch = true
		case "m512":
			pins = append(pins, sum("512", m.leaf.Raw)); anyMatch = true
		case "m224":
			pins = append(pins, sum("224", m.leaf.Raw)); anyMatch = true
		case "m384":
			pins = append(pins, sum("384", m.leaf.Raw)); anyMatch = true
		case "non32":
			pins = append(pins, non(32))
		case "non64":
			pins = append(pins, non(64))
		case "wrong20":
			pins = append(pins, non(20)); anyWrong = true
		case "pin-of-issuer":
			if m.issuerRaw != nil {
				pins = append(pins, sum("256", m.issuerRaw))
			} else {
				pins = append(pins, non(32))
			}
		}
	}
	switch {
	case len(pins) == 0:
		return pins, +1
	case anyMatch && anyWrong:
		return pins, 0 // statement: "matches one of the pinned fingerprints"; a list with an unusable entry is not described
	case anyMatch:
		return pins, +1
	}
	return pins, -1
}

// pinJudge decides the pin condition for a presented certificate against an actual pin list by comparing digests:
// +1 passes, -1 must be refused, 0 unconstrained (a matching entry next to an unusable one).
func pinJudge(pins [][]byte, m *c09Made) int {
	if len(pins) == 0 {
		return +1
	}
	anyMatch, anyWrong := false, false
	for _, p := range pins {
		kind := map[int]string{28: "224", 32: "256", 48: "384", 64: "512"}[len(p)]
		if kind == "" {
			anyWrong = true
			continue
		}
		if string(sum(kind, m.leaf.Raw)) == string(p) {
			anyMatch = true
		}
	}
	switch {
	case anyMatch && anyWrong:
		return 0
	case anyMatch:
		return +1
	}
	return -1
}

// c09Expect is the reference decision procedure, written from the statement. pins is the verifier's actual pin list
// (nil: derive it from s.Pins for certificate m itself).
func c09Expect(s C09Scn, m *c09Made, pinsOpt ...[][]byte) (accept bool, unconstrained bool, why string) {
	chain := s.Cert.CA == "trusted" || s.Cert.CA == "via-inter"
	if !chain {
		return false, false, "chain"
	}
	if s.Cert.Val != "valid" {
		return false, false, "validity"
	}
	ekuOK := false
	switch s.Cert.EKU {
	case "absent", "any", "both":
		ekuOK = true
	case "server":
		ekuOK = s.Role == "server"
	case "client":
		ekuOK = s.Role == "client"
	}
	if !ekuOK {
		return false, false, "usage"
	}
	_, pj := c09PinList(s.Pins, m)
	if len(pinsOpt) > 0 {
		pj = pinJudge(pinsOpt[0], m)
	}
	if pj < 0 {
		return false, false, "pin"
	}
	switch s.Mode {
	case "receptor":
		found := false
		for _, id := range m.ids {
			if id == c09ID {
				found = true
			}
		}
		if !found || m.malf {
			return false, false, "name"
		}
	case "dns-host":
		found := false
		for _, d := range m.dns {
			if d == c09Host {
				found = true
			}
		}
		if !found {
			return false, false, "name"
		}
	}
	if pj == 0 {
		return true, true, "pin-list-with-unusable-entry"
	}
	return true, false, ""
}

func c09Nontrivial(s C09Scn, m *c09Made) (bool, string) {
	// single-fault cases (exactly one condition false) and the all-true cases
	faults := 0
	if !(s.Cert.CA == "trusted" || s.Cert.CA == "via-inter") {
		faults++
	}
	if s.Cert.Val != "valid" {
		faults++
	}
	a, _, _ := c09Expect(C09Scn{Cert: C09Cert{CA: "trusted", Val: "valid", EKU: s.Cert.EKU, Names: "expected"}, Pins: "none", Role: s.Role, Mode: s.Mode}, c09Make(C09Cert{CA: "trusted", Val: "valid", EKU: s.Cert.EKU, Names: "expected"}))
	if !a {
		faults++
	}
	if _, pj := c09PinList(s.Pins, m); pj < 0 {
		faults++
	}
	b, _, _ := c09Expect(C09Scn{Cert: C09Cert{CA: "trusted", Val: "valid", EKU: "both", Names: s.Cert.Names}, Pins: "none", Role: s.Role, Mode: s.Mode}, c09Make(C09Cert{CA: "trusted", Val: "valid", EKU: "both", Names: s.Cert.Names}))
	if !b {
		faults++
	}
	switch faults {
	case 0:
		return true, "all-conditions-true"
	case 1:
		return true, "single-fault"
	}
	return false, "multi-fault"
}

func execC09Verify(b []byte) vx.Verdict {
	var s C09Scn
	if err := json.Unmarshal(b, &s); err != nil {
		return vx.Inconclusive("bad scenario: %v", err)
	}
	m := c09Make(s.Cert)
	pins, _ := c09PinList(s.Pins, m)
	tlscfg := &tls.Config{RootCAs: vx.PoolOf(c09Root.Cert), ClientCAs: vx.PoolOf(c09Root.Cert)}
	host, ht := "", netceptor.ExpectedHostnameType(netceptor.ExpectedHostnameTypeDNS)
	switch s.Mode {
	case "receptor":
		host, ht = c09ID, netceptor.ExpectedHostnameTypeReceptor
	case "dns-host":
		host = c09Host
	}
	vt := netceptor.VerifyType(netceptor.VerifyServer)
	if s.Role == "client" {
		vt = netceptor.VerifyClient
	}
	verifier := netceptor.ReceptorVerifyFunc(tlscfg, pins, host, ht, vt, c09Logger)
	err := verifier(m.chain, nil)
	v := c09Judge(s, m, err == nil, fmt.Sprint(err), "verify-func")
	if v.Status != "ok" || len(s.Then) == 0 {
		return v
	}
	// the same verifier is used for further peers (a listener's or backend's verifier lives as long as its configuration)
	for i, c := range s.Then {
		mi := c09Make(c)
		err := verifier(mi.chain, nil)
		si := C09Scn{Cert: c, Pins: s.Pins, Role: s.Role, Mode: s.Mode}
		vi := c09JudgePins(si, mi, pinsOrEmpty(pins), err == nil, fmt.Sprint(err), fmt.Sprintf("verify-func-reused#%d", i+1))
		if vi.Status != "ok" {
			return vi
		}
		v.Labels = append(v.Labels, "verifier-reused")
		v.Unconstrained += vi.Unconstrained
		if vi.Nontrivial {
			v.Nontrivial = true
		}
	}
	v.Labels = dedup(v.Labels)
	return v
}

func c09Judge(s C09Scn, m *c09Made, accepted bool, errText string, level string) vx.Verdict {
	return c09JudgePins(s, m, nil, accepted, errText, level)
}

func c09JudgePins(s C09Scn, m *c09Made, pins [][]byte, accepted bool, errText string, level string) vx.Verdict {
	want, uncon, why := c09Expect(s, m)
	if pins != nil {
		want, uncon, why = c09Expect(s, m, pins)
	}
	if i := strings.Index(level, "#"); i > 0 {
		level = level[:i]
	}
	nt, cls := c09Nontrivial(s, m)
	labels := []string{"level:" + level, cls, "role:" + s.Role, "mode:" + s.Mode}
	if !want {
		labels = append(labels, "refuse-because:"+why)
	}
	if uncon {
		v := vx.OK(false, append(labels, "unconstrained:"+why)...)
		v.Unconstrained = 1
		return v
	}
	if accepted && !want {
		return vx.Violation("refuse-on-any-failed-condition", "C09/accepted:"+why+":"+level,
			"%s: peer certificate %+v (pins %s, verifying the %s, mode %s) was ACCEPTED although the %s condition fails", level, s.Cert, s.Pins, s.Role, s.Mode, why)
	}
	if !accepted && want {
		return vx.Violation("accept-when-all-hold", "C09/refused-valid:"+level,
			"%s: peer certificate %+v (pins %s, verifying the %s, mode %s) was REFUSED although every condition holds: %s", level, s.Cert, s.Pins, s.Role, s.Mode, errText)
	}
	return vx.OK(nt, labels...)
}

// ---- level 2: a real crypto/tls handshake with configurations prepared by receptor --------------------------

func writeFile(dir, name string, data []byte) string {
	p := filepath.Join(dir, name)
	_ = os.WriteFile(p, data, 0o600)
	return p
}

func pinsHex(pins [][]byte, colons bool) []string {
	var out []string
	for _, p := range pins {
		h := hex.EncodeToString(p)
		if colons {
			var parts []string
			for i := 0; i < len(h); i += 2 {
				parts = append(parts, h[i:i+2])
			}
			h = strings.Join(parts, ":")
		}
		out = append(out, h)
	}
	return out
}

func tlsCertOf(m *c09Made) tls.Certificate {
	return tls.Certificate{Certificate: m.chain, PrivateKey: m.key, Leaf: m.leaf}
}

// handshake runs a TLS handshake over an in-memory pipe and one byte each way; returns nil on full success.
func handshake(serverCfg, clientCfg *tls.Config) error {
	// a loopback TCP pair (net.Pipe is unbuffered: simultaneous writes of the two TLS stacks would deadlock)
	c1, c2, perr := tcpPair()
	if perr != nil {
		return fmt.Errorf("harness: %w", perr)
	}
	defer c1.Close()
	defer c2.Close()
	dl := time.Now().Add(20 * time.Second)
	_ = c1.SetDeadline(dl)
	_ = c2.SetDeadline(dl)
	srv, cli := tls.Server(c1, serverCfg), tls.Client(c2, clientCfg)
	errs := make(chan error, 2)
	go func() {
		if err := srv.Handshake(); err != nil {
			c1.Close()
			errs <- fmt.Errorf("server: %w", err)
			return
		}
		if _, err := srv.Write([]byte{1}); err != nil {
			errs <- fmt.Errorf("server write: %w", err)
			return
		}
		buf := make([]byte, 1)
		if _, err := io.ReadFull(srv, buf); err != nil {
			errs <- fmt.Errorf("server read: %w", err)
			return
		}
		errs <- nil
	}()
	go func() {
		if err := cli.Handshake(); err != nil {
			c2.Close()
			errs <- fmt.Errorf("client: %w", err)
			return
		}
		buf := make([]byte, 1)
		if _, err := io.ReadFull(cli, buf); err != nil {
			errs <- fmt.Errorf("client read: %w", err)
			return
		}
		if _, err := cli.Write([]byte{2}); err != nil {
			errs <- fmt.Errorf("client write: %w", err)
			return
		}
		errs <- nil
	}()
	var first error
	for i := 0; i < 2; i++ {
		if err := <-errs; err != nil && first == nil {
			first = err
			c1.Close()
			c2.Close()
		}
	}
	return first
}

func tcpPair() (net.Conn, net.Conn, error) {
	l, err := net.Listen("tcp", "127.0.0.1:0")
	if err != nil {
		return nil, nil, err
	}
	defer l.Close()
	type res struct {
		c   net.Conn
		err error
	}
	ch := make(chan res, 1)
	go func() { c, err := l.Accept(); ch <- res{c, err} }()
	c2, err := net.DialTimeout("tcp", l.Addr().String(), 10*time.Second)
	if err != nil {
		return nil, nil, err
	}
	r := <-ch
	if r.err != nil {
		c2.Close()
		return nil, nil, r.err
	}
	return r.c, c2, nil
}

var goodServer = C09Cert{CA: "trusted", Val: "valid", EKU: "both", Names: "expected"}

func execC09TLS(b []byte) vx.Verdict {
	var s C09Scn
	if err := json.Unmarshal(b, &s); err != nil {
		return vx.Inconclusive("bad scenario: %v", err)
	}
	m := c09Make(s.Cert)
	pins, _ := c09PinList(s.Pins, m)
	for _, p := range pins {
		if len(p) != 32 && len(p) != 64 {
			return vx.OK(false, "tls:pin-length-not-configurable")
		}
	}
	dir, err := os.MkdirTemp("", "c09")
	if err != nil {
		return vx.Inconclusive("tempdir: %v", err)
	}
	defer os.RemoveAll(dir)
	ctx, cancel := context.WithCancel(context.Background())
	defer cancel()
	n := netceptor.New(ctx, "node-local")
	defer n.Shutdown()
	rootFile := writeFile(dir, "root.crt", vx.CertPEM(c09Root.Cert))
	var herr error
	var again func(mi *c09Made) error
	if s.Role == "server" {
		if s.Mode == "dns-nohost" {
			return vx.OK(false, "tls:client-needs-a-server-name")
		}
		cc := netceptor.TLSClientConfig{Name: "c", RootCAs: rootFile, PinnedServerCert: pinsHex(pins, len(s.Pins)%2 == 0), SkipReceptorNamesCheck: true}
		base, fp, err := cc.PrepareTLSClientConfig(n)
		if err != nil {
			return vx.Inconclusive("PrepareTLSClientConfig: %v", err)
		}
		if err := n.SetClientTLSConfig("c", base, fp); err != nil {
			return vx.Inconclusive("SetClientTLSConfig: %v", err)
		}
		host, ht := c09Host, netceptor.ExpectedHostnameType(netceptor.ExpectedHostnameTypeDNS)
		if s.Mode == "receptor" {
			host, ht = c09ID, netceptor.ExpectedHostnameTypeReceptor
		}
		clientCfg, err := n.GetClientTLSConfig("c", host, ht)
		if err != nil {
			return vx.Inconclusive("GetClientTLSConfig: %v", err)
		}
		again = func(mi *c09Made) error {
			return handshake(&tls.Config{Certificates: []tls.Certificate{tlsCertOf(mi)}}, clientCfg)
		}
	} else {
		// we are the server verifying a client certificate; the name is not checked on this path (DNS mode, no host)
		s.Mode = "dns-nohost"
		own := c09Make(goodServer)
		sc := netceptor.TLSServerConfig{Name: "s", Cert: writeFile(dir, "srv.crt", vx.CertPEM(own.leaf)), Key: writeFile(dir, "srv.key", vx.KeyPEM(vx.Key("c09leaf"))),
			RequireClientCert: true, ClientCAs: rootFile, PinnedClientCert: pinsHex(pins, len(s.Pins)%2 == 0), SkipReceptorNamesCheck: true}
		serverCfg, err := sc.PrepareTLSServerConfig(n)
		if err != nil {
			return vx.Inconclusive("PrepareTLSServerConfig: %v", err)
		}
		again = func(mi *c09Made) error {
			return handshake(serverCfg, &tls.Config{Certificates: []tls.Certificate{tlsCertOf(mi)}, InsecureSkipVerify: true})
		}
	}
	plumbing := func(e error) bool {
		return e != nil && (strings.HasPrefix(e.Error(), "harness:") || strings.Contains(e.Error(), "i/o timeout"))
	}
	herr = again(m)
	if plumbing(herr) {
		return vx.Inconclusive("handshake plumbing: %v", herr)
	}
	v := c09Judge(s, m, herr == nil, fmt.Sprint(herr), "tls-handshake")
	if v.Status != "ok" {
		return v
	}
	for i, c := range s.Then {
		mi := c09Make(c)
		e := again(mi)
		if plumbing(e) {
			return vx.Inconclusive("handshake plumbing: %v", e)
		}
		vi := c09JudgePins(C09Scn{Cert: c, Pins: s.Pins, Role: s.Role, Mode: s.Mode}, mi, pinsOrEmpty(pins), e == nil, fmt.Sprint(e), fmt.Sprintf("tls-handshake-reused#%d", i+1))
		if vi.Status != "ok" {
			return vi
		}
		v.Labels = append(v.Labels, "configuration-reused")
		if vi.Nontrivial {
			v.Nontrivial = true
		}
	}
	v.Labels = dedup(v.Labels)
	return v
}

func pinsOrEmpty(p [][]byte) [][]byte {
	if p == nil {
		return [][]byte{}
	}
	return p
}

// ---- level 3: mutually authenticated stream listener on a two-node mesh --------------------------------------

type C09Mesh struct {
	Dialer   C09Cert `json:"dialer"`   // certificate presented by the dialling node, whose node ID is node-x
	Listener C09Cert `json:"listener"` // certificate presented by the listening node, whose node ID is node-x as well (seen from the dialler)
}

func execC09Mesh(b []byte) vx.Verdict {
	var s C09Mesh
	if err := json.Unmarshal(b, &s); err != nil {
		return vx.Inconclusive("bad scenario: %v", err)
	}
	c09Mu.Lock()
	c09Init()
	c09Mu.Unlock()
	// Both roles are played by nodes called node-x in two separate two-node meshes would double the cost; instead the
	// dialler is "node-x" and the listener is "node-x" too in the eyes of the certificates: the mesh uses IDs
	// dialler = node-x, listener = node-l, and listener certificates are made for node-l by renaming.
	md := c09Make(s.Dialer)
	ml := c09MakeFor(s.Listener, "node-l")
	mesh := vx.NewMesh(vx.DefaultNodeOpts())
	defer mesh.Close()
	nd := mesh.StartNode(c09ID)
	nl := mesh.StartNode("node-l")
	mesh.AddLink(&vx.Link{A: c09ID, B: "node-l", CostA: 1, CostB: 1, Spec: vx.LinkSpec{Ordered: true}})
	if msg := vx.WaitFor(20*time.Second, 20*time.Millisecond, func() string {
		if _, ok := nd.N.Status().RoutingTable["node-l"]; !ok {
			return "no route"
		}
		if _, ok := nl.N.Status().RoutingTable[c09ID]; !ok {
			return "no route back"
		}
		return ""
	}); msg != "" {
		return vx.Inconclusive("mesh did not converge: %s", msg)
	}
	serverCfg := &tls.Config{Certificates: []tls.Certificate{tlsCertOf(ml)}, ClientCAs: vx.PoolOf(c09Root.Cert), ClientAuth: tls.RequireAndVerifyClientCert, MinVersion: tls.VersionTLS12}
	li, err := nl.N.Listen("tlssvc", serverCfg)
	if err != nil {
		return vx.Inconclusive("listen: %v", err)
	}
	go func() {
		for {
			c, err := li.Accept()
			if err != nil {
				return
			}
			go func() {
				buf := make([]byte, 4)
				if _, err := io.ReadFull(c, buf); err == nil {
					_, _ = c.Write(buf)
				}
				time.Sleep(200 * time.Millisecond)
				c.Close()
			}()
		}
	}()
	base := &tls.Config{Certificates: []tls.Certificate{tlsCertOf(md)}, RootCAs: vx.PoolOf(c09Root.Cert), MinVersion: tls.VersionTLS12}
	if err := nd.N.SetClientTLSConfig("c", base, [][]byte{}); err != nil {
		return vx.Inconclusive("SetClientTLSConfig: %v", err)
	}
	clientCfg, err := nd.N.GetClientTLSConfig("c", "node-l", netceptor.ExpectedHostnameTypeReceptor)
	if err != nil {
		return vx.Inconclusive("GetClientTLSConfig: %v", err)
	}
	ctx, cancel := context.WithTimeout(context.Background(), 25*time.Second)
	defer cancel()
	var derr error
	ok := false
	done := make(chan struct{})
	go func() {
		defer close(done)
		conn, err := nd.N.DialContext(ctx, "node-l", "tlssvc", clientCfg)
		if err != nil {
			derr = err
			return
		}
		defer conn.Close()
		_ = conn.SetDeadline(time.Now().Add(15 * time.Second))
		if _, err := conn.Write([]byte("ping")); err != nil {
			derr = err
			return
		}
		buf := make([]byte, 4)
		if _, err := io.ReadFull(conn, buf); err != nil {
			derr = err
			return
		}
		ok = string(buf) == "ping"
	}()
	select {
	case <-done:
	case <-time.After(40 * time.Second):
		return vx.Inconclusive("dial did not finish within 40 s")
	}
	// reference: the dialler's certificate is verified as a client naming node-x (the node the packets come from); the
	// listener's as a server naming node-l
	wd, _, whyD := c09Expect(C09Scn{Cert: s.Dialer, Pins: "none", Role: "client", Mode: "receptor"}, md)
	wl, _, whyL := c09Expect(C09Scn{Cert: s.Listener, Pins: "none", Role: "server", Mode: "receptor"}, c09Make(s.Listener))
	want := wd && wl
	labels := []string{"level:mesh"}
	if !wd {
		labels = append(labels, "dialer-refused-because:"+whyD)
	}
	if !wl {
		labels = append(labels, "listener-refused-because:"+whyL)
	}
	if ok && !want {
		return vx.Violation("refuse-on-any-failed-condition", "C09/mesh-accepted:"+whyD+"/"+whyL,
			"mesh stream established although dialler cert %+v (%s) / listener cert %+v (%s) must be refused", s.Dialer, whyD, s.Listener, whyL)
	}
	if !ok && want {
		if ctx.Err() != nil {
			return vx.Inconclusive("dial timed out: %v", derr)
		}
		return vx.Violation("accept-when-all-hold", "C09/mesh-refused-valid", "mesh stream refused although both certificates satisfy every condition: %v", derr)
	}
	nt := (wd != wl) || want
	return vx.OK(nt, labels...)
}

// c09MakeFor makes the certificate of attribute tuple c with the role of "expected ID" played by id.
func c09MakeFor(c C09Cert, id string) *c09Made {
	m := c09Make(c)
	c09Mu.Lock()
	defer c09Mu.Unlock()
	ids := make([]string, len(m.ids))
	for i, x := range m.ids {
		ids[i] = strings.ReplaceAll(x, c09ID, id)
		if x == "Node-X" {
			ids[i] = strings.ToUpper(id)
		}
	}
	tmpl := *m.leaf
	tmpl.SerialNumber = newSerial()
	tmpl.ExtraExtensions = nil
	tmpl.Extensions = nil
	tmpl.DNSNames, tmpl.IPAddresses = nil, nil
	var foreign []string
	for _, v := range m.foreign {
		foreign = append(foreign, strings.ReplaceAll(v, c09ID, id))
	}
	if ext := sanExtension(ids, m.dns, m.malf, foreign...); ext != nil {
		tmpl.ExtraExtensions = []pkix.Extension{*ext}
	}
	tmpl.AuthorityKeyId, tmpl.SubjectKeyId = nil, nil
	leafKey := vx.Key("c09leaf")
	var issuer *vx.TestCA
	switch c.CA {
	case "trusted":
		issuer = c09Root
	case "via-inter", "inter-missing":
		issuer = c09Inter
	case "other-ca":
		issuer = c09Other
	case "same-name-other-key":
		issuer = c09Same
	}
	var der []byte
	var err error
	if issuer == nil {
		der, err = x509.CreateCertificate(rand.Reader, &tmpl, &tmpl, &leafKey.PublicKey, leafKey)
	} else {
		der, err = x509.CreateCertificate(rand.Reader, &tmpl, issuer.Cert, &leafKey.PublicKey, issuer.Key)
	}
	if err != nil {
		panic(err)
	}
	leaf, err := x509.ParseCertificate(der)
	if err != nil {
		panic(err)
	}
	out := &c09Made{leaf: leaf, key: leafKey, chain: [][]byte{der}, ids: ids, dns: m.dns, malf: m.malf}
	if c.CA == "via-inter" {
		out.chain = append(out.chain, c09Inter.Cert.Raw)
	}
	return out
}

func init() {
	vx.Register("C09.verify", execC09Verify)
	vx.Register("C09.tls", execC09TLS)
	vx.Register("C09.mesh", execC09Mesh)
}
