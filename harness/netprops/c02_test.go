package netprops

import (
	"strings"
	"testing"
	"time"

	"pgregory.net/rapid"

	"verifharness/vx"
)

var c02Runes = []rune("abcxyzABC0189 .:-_/@#é✓日𝄞\t'\"\\")

func genNodeName(t *rapid.T, used map[string]bool) string {
	for {
		var id string
		switch rapid.IntRange(0, 4).Draw(t, "idkind") {
		case 0:
			id = rapid.StringMatching(`[a-z][a-z0-9]{0,7}`).Draw(t, "plain")
		case 1:
			n := rapid.IntRange(1, 20).Draw(t, "idlen")
			var sb strings.Builder
			for i := 0; i < n; i++ {
				sb.WriteRune(rapid.SampledFrom(c02Runes).Draw(t, "r"))
			}
			id = sb.String()
		case 2:
			id = rapid.SampledFrom([]string{"Relay", "relay", "RELAY", "node:1", "node", "node ", " node", "a:b:c", "localhos", "localhostx", "ﬁ", "ń", "ń"}).Draw(t, "special")
		default:
			id = rapid.StringMatching(`[a-zA-Z0-9._-]{1,12}`).Draw(t, "dns")
		}
		if id != "" && !strings.EqualFold(id, "localhost") && !used[id] {
			used[id] = true
			return id
		}
		// a collision or a reserved name: deterministic fallback keeps the generator total
		id = id + "-" + string(rune('a'+len(used)))
		if !strings.EqualFold(id, "localhost") && !used[id] {
			used[id] = true
			return id
		}
	}
}

func genSvc(t *rapid.T) []byte {
	switch rapid.IntRange(0, 3).Draw(t, "svckind") {
	case 0:
		return []byte(rapid.StringMatching(`[a-z]{1,8}`).Draw(t, "svcplain"))
	case 1:
		return rapid.SliceOfN(rapid.ByteRange(1, 255), 8, 8).Draw(t, "svc8")
	case 2:
		return []byte(rapid.SampledFrom([]string{"a", "ab", "abcdefgh", "abcdefg", "pin", "pingx", "unreac", "A", "\xff", "\x01", "a\x01", "ctl", "Ctl"}).Draw(t, "svcspecial"))
	}
	return rapid.SliceOfN(rapid.ByteRange(1, 255), 1, 8).Draw(t, "svcbytes")
}

func genC02(t *rapid.T) C02Scn {
	n := rapid.IntRange(2, 6).Draw(t, "n")
	s := C02Scn{Batch: rapid.SampledFrom([]int{1, 2, 4, 8}).Draw(t, "batch")}
	used := map[string]bool{}
	if rapid.IntRange(0, 3).Draw(t, "casefamily") == 0 {
		// node IDs that differ only in letter case (IDs are case-sensitive everywhere in the protocol)
		base := rapid.StringMatching(`[a-z]{2,6}`).Draw(t, "base")
		variants := []string{base, strings.ToUpper(base), strings.ToUpper(base[:1]) + base[1:], base[:1] + strings.ToUpper(base[1:]), base + "x", "x" + base}
		for i := 0; i < n; i++ {
			s.IDs = append(s.IDs, variants[i])
			used[variants[i]] = true
		}
	} else {
		for i := 0; i < n; i++ {
			s.IDs = append(s.IDs, genNodeName(t, used))
		}
	}
	chain := rapid.Bool().Draw(t, "chain")
	for i := 1; i < n; i++ {
		p := i - 1
		if !chain {
			p = rapid.IntRange(0, i-1).Draw(t, "parent")
		}
		l := C02Link{A: p, B: i}
		if rapid.Bool().Draw(t, "stream") {
			l.Chunks = rapid.SliceOfN(rapid.SampledFrom([]int{1, 1, 2, 3, 5, 36, 37, 38, 100, 1400, 4096, 65536}), 1, 5).Draw(t, "chunks")
			if rapid.IntRange(0, 3).Draw(t, "socket") == 0 {
				l.Socket = rapid.SampledFrom([]string{"tcp", "tcp", "ws"}).Draw(t, "sockkind")
				for i := range l.Chunks {
					if l.Chunks[i] < 64 {
						l.Chunks[i] = 64 + 7*i // tiny pieces over real sockets would make one 16 KiB frame outlast the nodes' shortened idle limit
					}
				}
			}
		}
		s.Links = append(s.Links, l)
	}
	nl := rapid.IntRange(2, 6).Draw(t, "nlisteners")
	for i := 0; i < nl; i++ {
		s.Listeners = append(s.Listeners, C02Listener{Node: rapid.IntRange(0, n-1).Draw(t, "lnode"), Svc: genSvc(t)})
	}
	// the same service name on several nodes, and near-identical names on one node, are the interesting collisions
	if rapid.Bool().Draw(t, "samesvc") {
		s.Listeners = append(s.Listeners, C02Listener{Node: rapid.IntRange(0, n-1).Draw(t, "dupnode"), Svc: s.Listeners[0].Svc})
	}
	ns := rapid.IntRange(1, 24).Draw(t, "nsends")
	for i := 0; i < ns; i++ {
		sd := C02Send{From: rapid.IntRange(0, len(s.Listeners)-1).Draw(t, "from"), Fill: rapid.IntRange(0, 3).Draw(t, "fill")}
		if rapid.IntRange(0, 7).Draw(t, "ghost") == 0 {
			sd.To = -1 - rapid.IntRange(0, n-1).Draw(t, "gnode")
			sd.Ghost = genSvc(t)
		} else {
			sd.To = rapid.IntRange(0, len(s.Listeners)-1).Draw(t, "to")
		}
		sd.Len = rapid.OneOf(rapid.SampledFrom([]int{0, 1, 35, 36, 37, 219, 220, 221, 255, 256, 257, 1163, 1164, 1165, 1199, 1200, 1201, 1363, 1400, 4060, 4096, 16347, 16348, 16383, 16384}), rapid.IntRange(0, 2000), rapid.IntRange(0, 16384)).Draw(t, "len")
		s.Sends = append(s.Sends, sd)
	}
	return s
}

func TestC02(t *testing.T) {
	st := vx.NewStats("C02", "datagrams", "real meshes (chains / trees of 2-6 nodes) whose links are datagram links, receptor-framed byte streams read in drawn piece sizes (1 B - 64 KiB), or the real TCP / websocket backends on loopback through a re-chunking proxy; node IDs = distinct UTF-8 strings "+
		"(spaces, ':', non-ASCII, case variants, near-'localhost'); 2-7 listeners with service names of 1-8 bytes from 1..255 (incl. exactly 8 bytes, the same name on several nodes, prefixes of reserved names); 1-24 sends in "+
		"concurrent batches (payload length biased to 0, 1, 35-37, 255-257, ~1200, ~1400, 4096, 16383, 16384; random / zero / 0xff / counter bytes; sender overwrites its buffer right after WriteTo), some to unbound services; "+
		"oracle: per listener the multiset of (payload, source node, source service) received equals the multiset addressed to it; non-trivial = (>= 2 hops or a frame split across reads) and a payload > 1 KiB")
	defer st.Flush()
	r := &vx.Runner{Name: "C02", Timeout: 240 * time.Second, Recycle: 40}
	defer r.Close()
	rapid.Check(t, func(t *rapid.T) {
		s := genC02(t)
		st.Judge(t, s, r.Run(s))
	})
}
