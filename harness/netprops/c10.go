package netprops

import (
	"context"
	"encoding/json"
	"fmt"
	"sync"
	"time"

	"github.com/ansible/receptor/pkg/netceptor"

	"verifharness/vx"
)

// ---- scenario ----------------------------------------------------------------------------------------

type C10Probe struct {
	Kind string `json:"k"`   // ping | trace | dgram
	Src  int    `json:"src"` // node index
	Dst  int    `json:"dst"`
	H    int    `json:"h"` // hop budget 0..255
}

// C10Inject sends one datagram addressed to the phantom destination from node Src with budget H.
type C10Inject struct {
	Src    int  `json:"src"`
	H      int  `json:"h"`
	Forged bool `json:"forged,omitempty"` // instead: a peer of Src sends a packet that claims to come FROM the phantom node to an
	// unbound service, so that the node's own 'service unknown' notice travels towards the phantom destination
}

type C10Scn struct {
	N        int         `json:"n"`
	Links    []C01Link   `json:"links"`
	Probes   []C10Probe  `json:"probes"`
	NextHops []int       `json:"nexthops,omitempty"` // adversarial part: node i forwards the phantom destination to its (NextHops[i] mod deg)-th neighbour
	Injects  []C10Inject `json:"injects,omitempty"`
	// TightHops: every node's maximum hop count is N-1, the longest loop-free route the mesh can have, instead of 30: routes
	// exactly as long as the maximum exist (end to end of a chain) and none is longer, so all the other expectations stay as they are
	TightHops bool `json:"tight,omitempty"`
}

const c10Phantom = "zz"

type c10Tx struct {
	from, to string
	ttl      byte
	marker   string
}

func execC10(b []byte) vx.Verdict {
	var s C10Scn
	if err := json.Unmarshal(b, &s); err != nil {
		return vx.Inconclusive("bad scenario: %v", err)
	}
	opts := vx.DefaultNodeOpts()
	opts.MaxHops = 30
	if s.TightHops && s.N >= 2 {
		opts.MaxHops = byte(s.N - 1)
	}
	m := vx.NewMesh(opts)
	defer m.Close()
	names := make([]string, s.N)
	for i := range names {
		names[i] = nodeName(i)
		m.StartNode(names[i])
	}
	var txMu sync.Mutex
	var txs []c10Tx
	zhash := vx.NameHash(c10Phantom)
	neigh := map[string][]string{}
	var edges []vx.Edge
	for _, l := range s.Links {
		a, bb := nodeName(l.A), nodeName(l.B)
		link := &vx.Link{A: a, B: bb, CostA: float64(l.Cost4) * 0.25, CostB: float64(l.Cost4) * 0.25, Spec: vx.LinkSpec{Ordered: true}}
		link.Tap = func(dir int, data []byte) {
			if p, ok := vx.DecodeData(data); ok && p.ToHash == zhash {
				from, to := a, bb
				if dir == 1 {
					from, to = bb, a
				}
				txMu.Lock()
				txs = append(txs, c10Tx{from: from, to: to, ttl: p.TTL, marker: string(p.Payload)})
				txMu.Unlock()
			}
		}
		m.AddLink(link)
		neigh[a] = append(neigh[a], bb)
		neigh[bb] = append(neigh[bb], a)
		edges = append(edges, vx.Edge{A: a, B: bb, Cost: float64(l.Cost4) * 0.25})
	}
	exp := expectedTables(names, edges)
	if msg := vx.WaitFor(40*opts.RouteUpdate+10*time.Second, 50*time.Millisecond, func() string { return checkRouting(m, names, exp) }); msg != "" {
		return vx.Inconclusive("mesh did not converge: %s", msg)
	}
	time.Sleep(2 * opts.RouteUpdate)
	// every node answers datagrams on "sink"
	type rcv struct {
		node, payload string
	}
	var rcvMu sync.Mutex
	var rcvd []rcv
	for _, nm := range names {
		pc, err := m.Node(nm).N.ListenPacket("sink")
		if err != nil {
			return vx.Inconclusive("listen: %v", err)
		}
		go func(nm string, pc netceptor.PacketConner) {
			buf := make([]byte, 2048)
			for {
				n, _, err := pc.ReadFrom(buf)
				if err != nil {
					return
				}
				rcvMu.Lock()
				rcvd = append(rcvd, rcv{nm, string(buf[:n])})
				rcvMu.Unlock()
			}
		}(nm, pc)
	}
	labels := []string{}
	nontrivial := false
	chainOf := func(src, dst string) []string {
		chain := []string{src}
		cur := src
		for cur != dst && len(chain) <= s.N+1 {
			nh := m.Node(cur).N.Status().RoutingTable[dst]
			if nh == "" {
				return nil
			}
			chain = append(chain, nh)
			cur = nh
		}
		if cur != dst {
			return nil
		}
		return chain
	}
	// ---- (a) honest tables
	for pi, p := range s.Probes {
		src, dst := names[p.Src%s.N], names[p.Dst%s.N]
		if src == dst {
			continue
		}
		chain := chainOf(src, dst)
		if chain == nil {
			continue // different components
		}
		d := len(chain) - 1
		h := p.H % 256
		n := m.Node(src).N
		if h < d {
			nontrivial = true
			labels = append(labels, p.Kind+":budget<distance")
		} else {
			labels = append(labels, p.Kind+":budget>=distance")
		}
		switch p.Kind {
		case "ping":
			ctx, cancel := context.WithTimeout(context.Background(), 25*time.Second)
			var remote string
			var err error
			ok := vx.WithDeadline(30*time.Second, func() { _, remote, err = n.Ping(ctx, dst, byte(h)) })
			cancel()
			if !ok {
				return vx.Violation("ping", "C10/ping-blocked", "probe %d: Ping(%s->%s, h=%d) did not return", pi, src, dst, h)
			}
			if h >= d {
				if err != nil || remote != dst {
					return vx.Violation("reach-iff-d<=h", "C10/unreached-within-budget", "probe %d: ping %s->%s with budget %d over a %d-link route %v returned (%q, %v); must reach", pi, src, dst, h, d, chain, remote, err)
				}
			} else {
				if err == nil {
					return vx.CertainViolation("reach-iff-d<=h", "C10/reached-beyond-budget", "probe %d: ping %s->%s with budget %d over a %d-link route %v succeeded; must expire at %s", pi, src, dst, h, d, chain, chain[h])
				}
				if err.Error() != netceptor.ProblemExpiredInTransit || remote != chain[h] {
					return vx.Violation("expiry-reported", "C10/expiry-misreported", "probe %d: ping %s->%s with budget %d over route %v returned (%q, %q); must be (%q, \"message expired\")", pi, src, dst, h, chain, remote, err.Error(), chain[h])
				}
			}
		case "trace":
			ctx, cancel := context.WithTimeout(context.Background(), 60*time.Second)
			var got []string
			var terr error
			ok := vx.WithDeadline(70*time.Second, func() {
				for r := range n.Traceroute(ctx, dst) {
					got = append(got, r.From)
					if r.Err != nil {
						terr = r.Err
					}
				}
			})
			cancel()
			if !ok {
				return vx.Violation("traceroute", "C10/traceroute-blocked", "probe %d: traceroute %s->%s did not finish", pi, src, dst)
			}
			if terr != nil || fmt.Sprint(got) != fmt.Sprint(chain) {
				return vx.Violation("traceroute-lists-path", "C10/traceroute-wrong", "probe %d: traceroute %s->%s listed %v (err %v); the route is %v", pi, src, dst, got, terr, chain)
			}
			nontrivial = nontrivial || d >= 2
		case "dgram":
			pc, err := n.ListenPacket("")
			if err != nil {
				return vx.Inconclusive("listen: %v", err)
			}
			done := make(chan struct{})
			unr := pc.SubscribeUnreachable(done)
			pc.SetHopsToLive(byte(h))
			payload := fmt.Sprintf("probe-%d", pi)
			_, werr := pc.WriteTo([]byte(payload), n.NewAddr(dst, "sink"))
			if werr != nil {
				close(done)
				_ = pc.Close()
				return vx.Violation("datagram", "C10/write-error", "probe %d: WriteTo %s->%s budget %d: %v", pi, src, dst, h, werr)
			}
			delivered := func() bool {
				rcvMu.Lock()
				defer rcvMu.Unlock()
				for _, r := range rcvd {
					if r.node == dst && r.payload == payload {
						return true
					}
				}
				return false
			}
			if h >= d {
				if vx.WaitFor(20*time.Second, 5*time.Millisecond, func() string {
					if delivered() {
						return ""
					}
					return "x"
				}) != "" {
					close(done)
					_ = pc.Close()
					return vx.Violation("reach-iff-d<=h", "C10/unreached-within-budget", "probe %d: datagram %s->%s with budget %d over %d-link route %v was not delivered", pi, src, dst, h, d, chain)
				}
			} else {
				var note *netceptor.UnreachableNotification
				select {
				case x, ok := <-unr:
					if ok {
						note = &x
					}
				case <-time.After(20 * time.Second):
				}
				if delivered() {
					close(done)
					_ = pc.Close()
					return vx.CertainViolation("reach-iff-d<=h", "C10/reached-beyond-budget", "probe %d: datagram %s->%s with budget %d over %d-link route %v was delivered", pi, src, dst, h, d, chain)
				}
				if note == nil || note.Problem != netceptor.ProblemExpiredInTransit || note.ReceivedFromNode != chain[h] {
					close(done)
					_ = pc.Close()
					return vx.Violation("expiry-reported", "C10/expiry-misreported", "probe %d: datagram %s->%s budget %d route %v: notice %+v; must be 'message expired' from %s", pi, src, dst, h, chain, note, chain[h])
				}
			}
			close(done)
			_ = pc.Close()
		}
	}
	// ---- (b) adversarial next hops for a phantom destination
	if len(s.NextHops) > 0 && len(s.Injects) > 0 {
		hop := map[string]string{}
		for i, nm := range names {
			if len(neigh[nm]) == 0 {
				continue
			}
			nh := neigh[nm][s.NextHops[i%len(s.NextHops)]%len(neigh[nm])]
			hop[nm] = nh
			m.Node(nm).N.VerifSetRoute(c10Phantom, nh)
		}
		for ii, inj := range s.Injects {
			src := names[inj.Src%s.N]
			if hop[src] == "" {
				continue
			}
			h := inj.H % 256
			marker := fmt.Sprintf("inject-%d", ii)
			n := m.Node(src).N
			if inj.Forged {
				for nm, nh := range hop {
					m.Node(nm).N.VerifSetRoute(c10Phantom, nh)
				}
				// a scripted peer next to src forges the source address
				be := vx.NewMemBackend()
				if err := n.AddBackend(be, netceptor.BackendConnectionCost(50)); err != nil {
					return vx.Inconclusive("add backend: %v", err)
				}
				pair := vx.NewSessionPair(vx.LinkSpec{Ordered: true}, nil)
				if !be.Offer(pair.A, 5*time.Second) {
					return vx.Inconclusive("offer failed")
				}
				go func() {
					for {
						if _, err := pair.B.Recv(time.Second); err != nil && err != netceptor.ErrTimeout {
							return
						}
					}
				}()
				pid := fmt.Sprintf("px%d", ii)
				_ = pair.B.Send(vx.EncodeRoute(&vx.RoutingUpdate{NodeID: pid, UpdateID: "hs" + pid, UpdateEpoch: 3 << 24, UpdateSequence: 1,
					Connections: map[string]float64{src: 50}, ForwardingNode: pid}))
				if vx.WaitFor(10*time.Second, 5*time.Millisecond, func() string {
					for _, c := range n.Status().Connections {
						if c.NodeID == pid {
							return ""
						}
					}
					return "x"
				}) != "" {
					return vx.Inconclusive("scripted peer not established")
				}
				time.Sleep(300 * time.Millisecond) // let the routing recomputation caused by the new connection pass, then re-install
				for nm, nh := range hop {
					m.Node(nm).N.VerifSetRoute(c10Phantom, nh)
				}
				fsvc := fmt.Sprintf("f%d", ii)
				_ = pair.B.Send(vx.EncodeData(c10Phantom, fsvc, src, "nosuch", 5, []byte("x")))
				needle := fmt.Sprintf("\"FromService\":\"%s\"", fsvc)
				countN := func() int {
					txMu.Lock()
					defer txMu.Unlock()
					c := 0
					for _, t := range txs {
						if stringsIndexOf(t.marker, needle) >= 0 {
							c++
						}
					}
					return c
				}
				// the notice starts with the node's maximum hop count and must die out after at most that many transmissions
				limit := int(opts.MaxHops)
				prev := -1
				for i := 0; i < 40; i++ {
					time.Sleep(100 * time.Millisecond)
					c := countN()
					if c > limit+2 {
						pair.Cut()
						return vx.CertainViolation("at-most-h-forwardings", "C10/notice-circulates", "inject %d: the 'service unknown' notice for a packet with a forged source (the phantom node, looping next hops %v) was transmitted %d times and is still going; its budget is %d", ii, hop, c, limit)
					}
					if c == prev && c > 0 {
						break
					}
					prev = c
				}
				pair.Cut()
				time.Sleep(2 * opts.RouteUpdate) // the peer going away triggers a routing recomputation; let it pass
				labels = append(labels, "forged-source-notice-in-loop")
				nontrivial = true
				continue
			}
			// re-install (a routing recomputation in between would have wiped the entries)
			for nm, nh := range hop {
				m.Node(nm).N.VerifSetRoute(c10Phantom, nh)
			}
			pc, err := n.ListenPacket("")
			if err != nil {
				return vx.Inconclusive("listen: %v", err)
			}
			done := make(chan struct{})
			unr := pc.SubscribeUnreachable(done)
			pc.SetHopsToLive(byte(h))
			if _, err := pc.WriteTo([]byte(marker), n.NewAddr(c10Phantom, "sink")); err != nil {
				close(done)
				_ = pc.Close()
				return vx.Violation("datagram", "C10/write-error", "inject %d: WriteTo: %v", ii, err)
			}
			// expected walk
			walk := []string{src}
			for k := 0; k < h; k++ {
				walk = append(walk, hop[walk[len(walk)-1]])
			}
			count := func() []c10Tx {
				txMu.Lock()
				defer txMu.Unlock()
				var out []c10Tx
				for _, t := range txs {
					if t.marker == marker {
						out = append(out, t)
					}
				}
				return out
			}
			var note *netceptor.UnreachableNotification
			select {
			case x, ok := <-unr:
				if ok {
					note = &x
				}
			case <-time.After(25 * time.Second):
			}
			time.Sleep(300 * time.Millisecond) // grace: nothing more may be sent
			got := count()
			close(done)
			_ = pc.Close()
			if len(got) > h {
				return vx.CertainViolation("at-most-h-forwardings", "C10/forwarded-beyond-budget", "inject %d: datagram with budget %d from %s was transmitted %d times in a loop %v: %v", ii, h, src, len(got), hop, got)
			}
			if len(got) < h {
				return vx.Violation("walk", "C10/walk-short", "inject %d: datagram with budget %d from %s was transmitted only %d times (next hops %v): %v", ii, h, src, len(got), hop, got)
			}
			for k, t := range got {
				if t.from != walk[k] || t.to != walk[k+1] || int(t.ttl) != h-1-k {
					return vx.Violation("walk", "C10/walk-wrong", "inject %d: transmission %d was %s->%s ttl %d; expected %s->%s ttl %d (walk %v)", ii, k, t.from, t.to, t.ttl, walk[k], walk[k+1], h-1-k, walk)
				}
			}
			if note == nil || note.Problem != netceptor.ProblemExpiredInTransit || note.ReceivedFromNode != walk[h] {
				return vx.Violation("expiry-reported", "C10/expiry-misreported", "inject %d: budget %d from %s through next hops %v ran out at %s, but the sender got notice %+v", ii, h, src, hop, walk[h], note)
			}
			labels = append(labels, "loop-inject")
			if h >= 3 {
				nontrivial = true
				labels = append(labels, "loop-budget>=3")
			}
		}
	}
	return vx.OK(nontrivial, dedup(labels)...)
}

func init() { vx.Register("C10", execC10) }
