package netprops

import (
	"encoding/json"
	"fmt"
	"github.com/ansible/receptor/pkg/types"
	"os"
	"regexp"
	"strings"

	"github.com/ansible/receptor/pkg/netceptor"

	"verifharness/vx"
)

// ---- scenario ----------------------------------------------------------------------------------------

// FWEntry is one key/value pair of a rule as YAML would deliver it.
type FWEntry struct {
	KeyKind string `json:"kk"` // str | int
	Key     string `json:"k"`
	ValKind string `json:"vk"` // str | int | bool | nil | list | map
	Val     string `json:"v"`
}

type FWRule []FWEntry

type FWPacket struct {
	FromNode    string `json:"fn"`
	FromService string `json:"fs"`
	ToNode      string `json:"tn"`
	ToService   string `json:"ts"`
}

type C12Pure struct {
	ViaConfig bool       `json:"via_config,omitempty"` // additionally hand the rule list to types.NodeCfg.Init
	Rules     []FWRule   `json:"rules"`
	Packets   []FWPacket `json:"packets"`
}

func (r FWRule) data() netceptor.FirewallRuleData {
	d := netceptor.FirewallRuleData{}
	for _, e := range r {
		var k interface{} = e.Key
		if e.KeyKind == "int" {
			k = len(e.Key)
		}
		var v interface{}
		switch e.ValKind {
		case "str":
			v = e.Val
		case "int":
			v = len(e.Val)
		case "bool":
			v = len(e.Val)%2 == 0
		case "nil":
			v = nil
		case "list":
			v = []interface{}{e.Val}
		case "map":
			v = map[interface{}]interface{}{e.Val: e.Val}
		}
		d[k] = v
	}
	return d
}

// ---- reference interpreter (written from the statement) ----------------------------------------------------

type fwVerdict int

const (
	fwAccept fwVerdict = iota
	fwReject
	fwDrop
)

func (v fwVerdict) String() string { return [...]string{"accept", "reject", "drop"}[v] }

type refMatcher struct {
	field   string // fromnode tonode fromservice toservice
	literal string
	re      *regexp.Regexp
	// ambiguous: pattern starts with "/" but is not of the /regex/ form; statement only forbids a WIDER effect.
}

type refRule struct {
	action   fwVerdict
	matchers []refMatcher
}

type refParse struct {
	valid     bool   // must be accepted
	invalid   bool   // must be refused
	why       string // reason for invalid
	ambiguous bool   // unclosed "/abc" pattern: refusal or literal interpretation are both fine (never wider)
	rules     []refRule
}

var fwFields = map[string]bool{"fromnode": true, "tonode": true, "fromservice": true, "toservice": true}

func refParseRules(rules []FWRule) refParse {
	out := refParse{}
	for i, r := range rules {
		rr := refRule{}
		haveAction := false
		for _, e := range r {
			if e.KeyKind != "str" {
				out.invalid, out.why = true, fmt.Sprintf("rule %d: non-string key", i)
				return out
			}
			lk := strings.ToLower(e.Key)
			if lk != "action" && !fwFields[lk] {
				out.invalid, out.why = true, fmt.Sprintf("rule %d: unknown key %q", i, e.Key)
				return out
			}
			if e.ValKind != "str" {
				out.invalid, out.why = true, fmt.Sprintf("rule %d: non-string value for %q", i, e.Key)
				return out
			}
			if lk == "action" {
				haveAction = true
				switch strings.ToLower(e.Val) {
				case "accept":
					rr.action = fwAccept
				case "reject":
					rr.action = fwReject
				case "drop":
					rr.action = fwDrop
				default:
					out.invalid, out.why = true, fmt.Sprintf("rule %d: unknown action %q", i, e.Val)
					return out
				}
				continue
			}
			if e.Val == "" {
				continue // field not given
			}
			m := refMatcher{field: lk, literal: e.Val}
			if strings.HasPrefix(e.Val, "/") {
				if len(e.Val) >= 2 && strings.HasSuffix(e.Val, "/") {
					re, err := regexp.Compile("^(?:" + e.Val[1:len(e.Val)-1] + ")$")
					if err != nil {
						out.invalid, out.why = true, fmt.Sprintf("rule %d: malformed pattern %q", i, e.Val)
						return out
					}
					m.re = re
				} else {
					out.ambiguous = true
				}
			}
			rr.matchers = append(rr.matchers, m)
		}
		if !haveAction {
			out.invalid, out.why = true, fmt.Sprintf("rule %d: no action", i)
			return out
		}
		out.rules = append(out.rules, rr)
	}
	out.valid = !out.ambiguous
	return out
}

func (p FWPacket) field(f string) string {
	switch f {
	case "fromnode":
		return p.FromNode
	case "tonode":
		return p.ToNode
	case "fromservice":
		return p.FromService
	}
	return p.ToService
}

func refEval(rules []refRule, p FWPacket) (fwVerdict, int) {
	for i, r := range rules {
		all := true
		for _, m := range r.matchers {
			v := p.field(m.field)
			if m.re != nil {
				if !m.re.MatchString(v) {
					all = false
				}
			} else if v != m.literal {
				all = false
			}
		}
		if all {
			return r.action, i
		}
	}
	return fwAccept, -1
}

// sutEval runs the returned rule functions through the same first-non-Continue loop handleMessageData uses.
func sutEval(funcs []netceptor.FirewallRuleFunc, p FWPacket) fwVerdict {
	md := &netceptor.MessageData{FromNode: p.FromNode, FromService: p.FromService, ToNode: p.ToNode, ToService: p.ToService}
	result := netceptor.FirewallResultAccept
	for _, rule := range funcs {
		result = rule(md)
		if result != netceptor.FirewallResultContinue {
			break
		}
	}
	switch result {
	case netceptor.FirewallResultReject:
		return fwReject
	case netceptor.FirewallResultDrop:
		return fwDrop
	}
	return fwAccept // Accept, or Continue from the last rule (treated as accept by the switch in handleMessageData)
}

func execC12Pure(b []byte) vx.Verdict {
	var s C12Pure
	if err := json.Unmarshal(b, &s); err != nil {
		return vx.Inconclusive("bad scenario: %v", err)
	}
	ref := refParseRules(s.Rules)
	data := make([]netceptor.FirewallRuleData, len(s.Rules))
	for i, r := range s.Rules {
		data[i] = r.data()
	}
	funcs, err := netceptor.ParseFirewallRules(data)
	labels := []string{}
	nontrivial := false
	if s.ViaConfig && len(data) > 0 {
		// the configuration entry point itself (what a daemon does with the firewallrules of its node section)
		dir, derr := os.MkdirTemp("", "c12cfg")
		if derr == nil {
			ierr := types.NodeCfg{ID: "cfgnode", DataDir: dir, FirewallRules: data}.Init()
			if netceptor.MainInstance != nil {
				netceptor.MainInstance.Shutdown()
			}
			_ = os.RemoveAll(dir)
			labels = append(labels, "via-node-config")
			if ref.invalid && ierr == nil {
				return vx.Violation("bad-rules-refused", "C12/config-accepted-invalid:"+classifyWhy(ref.why),
					"rule set must be refused at configuration time (%s) but NodeCfg.Init returned no error: the node would start with other rules than configured", ref.why)
			}
		}
	}
	if ref.invalid {
		labels = append(labels, "invalid-ruleset")
		if err == nil {
			return vx.Violation("bad-rules-refused", "C12/accepted-invalid:"+classifyWhy(ref.why),
				"rule set must be refused (%s) but ParseFirewallRules accepted it", ref.why)
		}
		return vx.OK(true, append(labels, "invalid:"+classifyWhy(ref.why))...)
	}
	if err != nil {
		if ref.ambiguous {
			v := vx.OK(false, "ambiguous-refused")
			v.Unconstrained = 1
			return v
		}
		return vx.Violation("valid-rules-accepted", "C12/refused-valid", "valid rule set refused: %v", err)
	}
	if ref.ambiguous {
		labels = append(labels, "ambiguous-literal")
	}
	hasRegex, shadow := false, false
	for _, r := range ref.rules {
		for _, m := range r.matchers {
			if m.re != nil {
				hasRegex = true
			}
		}
	}
	for _, p := range s.Packets {
		want, idx := refEval(ref.rules, p)
		got := sutEval(funcs, p)
		if want != got {
			sig := "C12/eval-mismatch"
			if ref.ambiguous {
				sig = "C12/unclosed-pattern-wider"
			} else if hasRegex {
				sig = "C12/eval-mismatch-regex"
			}
			return vx.Violation("first-match-decides", sig,
				"packet %+v: reference says %v (rule %d), code says %v", p, want, idx, got)
		}
		// shadowing: a later rule would also match with a different action
		if idx >= 0 && idx+1 < len(ref.rules) {
			w2, i2 := refEval(ref.rules[idx+1:], p)
			if i2 >= 0 && w2 != want {
				shadow = true
			}
		}
	}
	if hasRegex {
		labels = append(labels, "regex")
	}
	if shadow {
		labels = append(labels, "shadowed-later-rule")
	}
	nontrivial = (hasRegex || shadow) && len(s.Packets) > 0
	return vx.OK(nontrivial, labels...)
}

func classifyWhy(w string) string {
	for _, k := range []string{"non-string key", "unknown key", "non-string value", "unknown action", "malformed pattern", "no action"} {
		if strings.Contains(w, k) {
			return strings.ReplaceAll(k, " ", "-")
		}
	}
	return "other"
}

func init() { vx.Register("C12.pure", execC12Pure) }
