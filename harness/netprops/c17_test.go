package netprops

import (
	"testing"
	"time"

	"pgregory.net/rapid"

	"verifharness/vx"
)

func genC17(t *rapid.T) C17Scn {
	s := C17Scn{N: rapid.IntRange(2, 3).Draw(t, "n"), Rounds: rapid.SampledFrom([]int{1, 3, 3}).Draw(t, "rounds"), Persist: rapid.Bool().Draw(t, "persist")}
	n := rapid.IntRange(1, 12).Draw(t, "nops")
	// a listener early on makes the dial operations meaningful
	s.Ops = append(s.Ops, C17Op{K: "listen", A: rapid.IntRange(0, 2).Draw(t, "lnode")})
	for i := 0; i < n; i++ {
		k := rapid.SampledFrom([]string{"lp", "lp", "lpclose", "lpclose", "unread", "blast", "listen", "lclose", "dial", "dial", "dial", "dialbad", "ping"}).Draw(t, "k")
		s.Ops = append(s.Ops, C17Op{K: k, A: rapid.IntRange(0, 5).Draw(t, "a"), B: rapid.IntRange(0, 7).Draw(t, "b"), C: rapid.IntRange(0, 19).Draw(t, "c")})
	}
	return s
}

func TestC17(t *testing.T) {
	st := vx.NewStats("C17", "lifecycle", "real chains of 2-3 nodes (QUIC idle timeout lowered to 2 s); 1-12 operations from {ListenPacket (+advertise), PacketConn.Close once/twice, close a socket with 1-3 parked deliveries nobody reads, "+
		"close a socket while 1-4 senders blast it, Listen, Listener.Close, Dial + echo + {Close, CloseConnection, peer closes first, repeated closes, leave open, dialler cancels reading then the acceptor closes}, Dial to unbound service / unknown node / cancelled mid-dial, "+
		"Ping ok / no route / cancelled}, the whole list executed 1 or 3 times on the same mesh (in half of the scenarios with one stream listener that stays open throughout and takes most of the connections), then everything still open is closed and all nodes shut down; oracle: process alive, every close-like call returns within 20 s and every ListenPacket / Listen / Ping within 25 s, "+
		"after settling (<= 40 s) each node's listener registry holds exactly the services the model says are open (zero at the end), receptor/quic goroutines do not grow from round 1 to round 3, none survive Shutdown; "+
		"non-trivial = a successful dial that was closed, plus a close with traffic in flight, a double close or a listener close; distinct by canonical JSON")
	defer st.Flush()
	r := &vx.Runner{Name: "C17", Timeout: 420 * time.Second, Recycle: 1}
	defer r.Close()
	rapid.Check(t, func(t *rapid.T) {
		s := genC17(t)
		st.Judge(t, s, r.Run(s))
	})
}
