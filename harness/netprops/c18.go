package netprops

import (
	"crypto/tls"
	"encoding/json"
	"fmt"
	"os"
	"reflect"
	"sort"
	"sync"
	"time"

	"github.com/ansible/receptor/pkg/netceptor"

	"verifharness/vx"
)

// ---- (A) one real node, scripted peers, model-based ----------------------------------------------------

type C18Delivery struct {
	Link int `json:"link"`
	Key  int `json:"key"` // 0..3 -> (r1|r2, s1|s2)
	T    int `json:"t"`   // timestamp index 0..7; even = advertisement, odd = withdrawal (so the two never share a timestamp)
}

type C18Scn struct {
	NPeers     int           `json:"npeers"`
	Deliveries []C18Delivery `json:"deliveries"`
	// OwnEcho > 0: the node itself opens an advertised service and closes it again; afterwards a neighbour delivers the node's own
	// (older) advertisement of it, as happens when that advertisement was still travelling round a cycle: 1 = once, 2 = after
	// the node has opened and closed the service a second time as well
	OwnEcho int `json:"own_echo,omitempty"`
}

var c18Base = time.Date(2030, 1, 1, 0, 0, 0, 0, time.UTC)

func c18Msg(key, t int) vx.ServiceAd {
	node := []string{"r1", "r2"}[key%2]
	svc := []string{"s1", "s2"}[(key/2)%2]
	return vx.ServiceAd{NodeID: node, Service: svc, Time: c18Base.Add(time.Duration(t) * time.Minute), ConnType: byte(t % 3),
		Tags: map[string]string{"v": fmt.Sprint(t)}, Cancel: t%2 == 1}
}

func execC18(b []byte) vx.Verdict {
	var s C18Scn
	if err := json.Unmarshal(b, &s); err != nil {
		return vx.Inconclusive("bad scenario: %v", err)
	}
	if s.NPeers < 1 {
		s.NPeers = 1
	}
	opts := vx.NodeOpts{RouteUpdate: time.Hour, ServiceAd: 0, MaxIdle: time.Hour, MaxHops: 30}
	sut := vx.NewSUT(sutID, opts)
	defer sut.Close()
	peers := make([]*vx.Peer, s.NPeers)
	for i := range peers {
		id := fmt.Sprintf("p%d", i)
		peers[i] = sut.AddPeer(id, vx.LinkSpec{Ordered: true}, netceptor.BackendConnectionCost(1.0))
		_ = peers[i].Hello(5<<24, 1, map[string]float64{sutID: 1.0})
		if !peers[i].WaitConnected(20 * time.Second) {
			return vx.Inconclusive("peer %s not established", id)
		}
		_ = peers[i].Hello(5<<24, 2, map[string]float64{sutID: 1.0})
	}
	best := map[int]int{} // key -> greatest timestamp index seen (-1 none)
	for k := 0; k < 4; k++ {
		best[k] = -1
	}
	labels := []string{}
	nontrivial := false
	var hist []string
	for i, d := range s.Deliveries {
		key, t := d.Key%4, d.T%8
		link := d.Link % len(peers)
		msg := c18Msg(key, t)
		prev := best[key]
		class := "stale"
		if t > prev {
			class = "newer"
			best[key] = t
		} else if t == prev {
			class = "duplicate"
		}
		kind := "ad"
		if msg.Cancel {
			kind = "cancel"
		}
		if class == "stale" && !msg.Cancel && prev%2 == 1 {
			labels = append(labels, "older-ad-after-withdrawal")
			nontrivial = true
		}
		if class == "stale" && !msg.Cancel && prev%2 == 0 {
			labels = append(labels, "older-ad-after-newer-ad")
			nontrivial = true
		}
		if class == "stale" && msg.Cancel && prev%2 == 0 {
			labels = append(labels, "older-withdrawal-after-newer-ad")
			nontrivial = true
		}
		hist = append(hist, fmt.Sprintf("%s(%s/%s,t%d)via-p%d:%s", kind, msg.NodeID, msg.Service, t, link, class))
		if err := peers[link].Send(vx.EncodeAd(&msg)); err != nil {
			return vx.Inconclusive("send: %v", err)
		}
		if !peers[link].Barrier(10 * time.Second) {
			return vx.Inconclusive("barrier after delivery %d timed out", i)
		}
		// the node's listing of every key equals the model
		for k := 0; k < 4; k++ {
			m := c18Msg(k, 0)
			info, ok := sut.N.GetServiceInfo(m.NodeID, m.Service)
			want := best[k] >= 0 && best[k]%2 == 0
			if ok != want {
				sig := "C18/resurrected"
				if want {
					sig = "C18/withdrawn-by-older-message"
				}
				return vx.CertainViolation("listing-follows-newest", sig, "after delivery %d the node lists %s/%s = %v, but the newest message seen for it is t%d (history %v)", i, m.NodeID, m.Service, ok, best[k], hist)
			}
			if want {
				w := c18Msg(k, best[k])
				if !info.Time.Equal(w.Time) || info.ConnType != w.ConnType || !reflect.DeepEqual(info.Tags, w.Tags) {
					return vx.CertainViolation("listing-follows-newest", "C18/older-replaced-newer", "after delivery %d the node lists %s/%s with time %v type %d tags %v, newest seen is t%d (history %v)",
						i, m.NodeID, m.Service, info.Time, info.ConnType, info.Tags, best[k], hist)
				}
			}
		}
		// a newer message must be passed on to the other neighbours (needed for convergence)
		if class == "newer" {
			for j, q := range peers {
				if j == link {
					continue
				}
				want := msg
				if vx.WaitFor(10*time.Second, 5*time.Millisecond, func() string {
					for _, a := range q.Ads() {
						if a.NodeID == want.NodeID && a.Service == want.Service && a.Time.Equal(want.Time) && a.Cancel == want.Cancel {
							return ""
						}
					}
					return "missing"
				}) != "" {
					return vx.Violation("newer-is-relayed", "C18/not-relayed", "delivery %d (%s) was not passed on to %s within 10 s (history %v)", i, hist[len(hist)-1], q.ID, hist)
				}
			}
		}
		labels = append(labels, "class:"+class+"-"+kind)
	}
	// ---- the node's own service: closed means not listed, whatever comes back from the mesh
	if s.OwnEcho > 0 {
		echoVia := peers[len(s.Deliveries)%len(peers)]
		for round := 0; round < s.OwnEcho && round < 2; round++ {
			pc, err := sut.N.ListenPacketAndAdvertise("own1", map[string]string{"round": fmt.Sprint(round)})
			if err != nil {
				return vx.Inconclusive("own service: %v", err)
			}
			// the advertisement as the node itself holds it (this is what it floods; here the advertisement timer is off)
			info, ok := sut.N.GetServiceInfo(sutID, "own1")
			if !ok {
				return vx.Violation("listing-follows-newest", "C18/own-not-listed", "the node does not list its own open advertised service own1")
			}
			captured := &vx.ServiceAd{NodeID: sutID, Service: "own1", Time: info.Time, ConnType: info.ConnType, Tags: info.Tags}
			_ = pc.Close()
			if vx.WaitFor(10*time.Second, 5*time.Millisecond, func() string {
				for _, a := range echoVia.Ads() {
					if a.NodeID == sutID && a.Service == "own1" && a.Cancel && a.Time.After(captured.Time) {
						return ""
					}
				}
				return "not withdrawn yet"
			}) != "" {
				return vx.Violation("newer-is-relayed", "C18/own-not-withdrawn", "the withdrawal of the node's own service own1 did not reach %s within 10 s", echoVia.ID)
			}
			// the older advertisement comes back from the mesh
			if err := echoVia.Send(vx.EncodeAd(captured)); err != nil {
				return vx.Inconclusive("send: %v", err)
			}
			if !echoVia.Barrier(10 * time.Second) {
				return vx.Inconclusive("barrier after own echo timed out")
			}
			if _, listed := sut.N.GetServiceInfo(sutID, "own1"); listed {
				return vx.CertainViolation("listing-follows-newest", "C18/own-service-resurrected", "the node closed its own service own1 (withdrawal sent at a later time than the advertisement of %v); when that older advertisement came back from neighbour %s the node listed the service again (history %v)", captured.Time, echoVia.ID, hist)
			}
			labels = append(labels, "own-advertisement-echoed-after-close")
			nontrivial = true
		}
	}
	// the Status() view agrees
	var listed []string
	for _, a := range sut.N.Status().Advertisements {
		if a.NodeID == "r1" || a.NodeID == "r2" {
			listed = append(listed, a.NodeID+"/"+a.Service)
		}
	}
	sort.Strings(listed)
	var want []string
	for k := 0; k < 4; k++ {
		if best[k] >= 0 && best[k]%2 == 0 {
			m := c18Msg(k, 0)
			want = append(want, m.NodeID+"/"+m.Service)
		}
	}
	sort.Strings(want)
	if !reflect.DeepEqual(listed, want) && !(len(listed) == 0 && len(want) == 0) {
		return vx.CertainViolation("listing-follows-newest", "C18/status-differs", "Status().Advertisements lists %v, model %v (history %v)", listed, want, hist)
	}
	return vx.OK(nontrivial, dedup(labels)...)
}

// ---- (B) real mesh with advertised listeners ------------------------------------------------------------

type C18Event struct {
	K     string `json:"k"` // open | close | join | reopen | storm
	Node  int    `json:"n"`
	Svc   int    `json:"s,omitempty"`    // service name index
	Kind  int    `json:"kind,omitempty"` // 0 datagram, 1 stream, 3 stream with a TLS configuration
	Tags  int    `json:"tags,omitempty"`
	GapMs int    `json:"gap,omitempty"`
}

type C18Mesh struct {
	N      int        `json:"n"`
	Links  []C01Link  `json:"links"`
	Late   []int      `json:"late"` // nodes that are not started at the beginning (they join by a join event, or at the end)
	Events []C18Event `json:"events"`
}

var c18Tags = []map[string]string{nil, {"type": "x"}, {"a": "1", "b": "2"}, {"type": "Control Service"}}

type c18Open struct {
	closeFn  func()
	connType byte
	tags     map[string]string
}

func execC18Mesh(b []byte) vx.Verdict {
	os.Unsetenv("VERIF_NET_DELAY") // (a case that ended inside a paused reopen event leaves it set; executor processes are reused)
	var s C18Mesh
	if err := json.Unmarshal(b, &s); err != nil {
		return vx.Inconclusive("bad scenario: %v", err)
	}
	opts := vx.DefaultNodeOpts()
	m := vx.NewMesh(opts)
	defer m.Close()
	late := map[int]bool{}
	for _, l := range s.Late {
		late[l%s.N] = true
	}
	if len(late) >= s.N {
		delete(late, 0)
	}
	started := map[int]bool{}
	for i := 0; i < s.N; i++ {
		if !late[i] {
			m.StartNode(nodeName(i))
			started[i] = true
		}
	}
	for _, l := range s.Links {
		m.AddLink(&vx.Link{A: nodeName(l.A), B: nodeName(l.B), CostA: float64(l.Cost4) * 0.25, CostB: float64(l.Cost4) * 0.25,
			Spec: vx.LinkSpec{Ordered: true, AB: delaysToFaults(l.DelAB), BA: delaysToFaults(l.DelBA)}})
	}
	open := map[string]*c18Open{} // "node/service"
	labels := []string{}
	closes, joins := 0, 0
	streamCtr := 0
	stormCtr := 0
	for _, ev := range s.Events {
		time.Sleep(time.Duration(ev.GapMs) * time.Millisecond)
		ni := ev.Node % s.N
		name := nodeName(ni)
		switch ev.K {
		case "join":
			if !started[ni] {
				m.StartNode(name)
				started[ni] = true
				joins++
				labels = append(labels, "late-joiner")
			}
		case "open":
			if !started[ni] {
				continue
			}
			svc := fmt.Sprintf("s%d", ev.Svc%3)
			if ev.Kind%2 == 1 {
				// stream listeners get a fresh name every time: re-listening on a stream service right after Close is a
				// matter of C17 (the QUIC transport of the old listener is released asynchronously); re-advertising the
				// same name is exercised with datagram listeners, whose Close is synchronous
				streamCtr++
				svc = fmt.Sprintf("q%d", streamCtr)
			}
			key := name + "/" + svc
			if open[key] != nil {
				continue
			}
			tags := c18Tags[ev.Tags%len(c18Tags)]
			n := m.Node(name).N
			if ev.Kind%2 == 0 {
				pc, err := n.ListenPacketAndAdvertise(svc, tags)
				if err != nil {
					return vx.Inconclusive("ListenPacketAndAdvertise %s: %v", key, err)
				}
				open[key] = &c18Open{closeFn: func() { _ = pc.Close() }, connType: netceptor.ConnTypeDatagram, tags: tags}
			} else {
				var tcfg *tls.Config
				ct := byte(netceptor.ConnTypeStream)
				if ev.Kind%4 == 3 {
					// a listener with a user-supplied TLS configuration is advertised with its own type
					tcfg, ct = c18TLS(), netceptor.ConnTypeStreamTLS
				}
				li, err := n.ListenAndAdvertise(svc, tcfg, tags)
				if err != nil {
					return vx.Inconclusive("ListenAndAdvertise %s: %v", key, err)
				}
				open[key] = &c18Open{closeFn: func() { _ = li.Close() }, connType: ct, tags: tags}
			}
			labels = append(labels, "open")
		case "reopen":
			// close an advertised datagram listener and open the same service again at the same moment; whether the open
			// wins or is refused ("already listening") is read from its result, the final listing must agree with it
			var keys []string
			for k, o := range open {
				if o.connType == netceptor.ConnTypeDatagram {
					keys = append(keys, k)
				}
			}
			if len(keys) == 0 {
				continue
			}
			sort.Strings(keys)
			k := keys[(ev.Node+ev.Svc)%len(keys)]
			o := open[k]
			var node, svc string
			fmt.Sscanf(replaceSlash(k), "%s %s", &node, &svc)
			n := m.Node(node).N
			tags := c18Tags[ev.Tags%len(c18Tags)]
			rounds := 40 + (ev.Kind*70+ev.Tags*30)%280
			// in half of the events the closing side pauses (hook) between taking the service out of the registry and withdrawing
			// its advertisement: whatever else may run in that window gets the time to do so
			if (ev.Node+ev.Svc+ev.Tags)%2 == 0 {
				os.Setenv("VERIF_NET_DELAY", "packetconn.close.before_withdraw:1500")
				labels = append(labels, "close-paused-before-withdrawal")
			}
			cur := o
			for round := 0; round < rounds && cur != nil; round++ {
				start := make(chan struct{})
				done := make(chan struct{}, 2)
				var npc netceptor.PacketConner
				var nerr error
				closing := cur
				go func() { <-start; closing.closeFn(); done <- struct{}{} }()
				go func() {
					<-start
					// like a supervisor that re-creates the service as soon as the name is free (bounded: 200 ms)
					limit := time.Now().Add(200 * time.Millisecond)
					for {
						npc, nerr = n.ListenPacketAndAdvertise(svc, tags)
						if nerr == nil || time.Now().After(limit) || (ev.Kind+round)%5 == 0 {
							break
						}
					}
					done <- struct{}{}
				}()
				close(start)
				for i := 0; i < 2; i++ {
					select {
					case <-done:
					case <-time.After(20 * time.Second):
						return vx.Violation("converge", "C18/close-or-open-blocked", "closing and re-opening %s at the same time did not return within 20 s", k)
					}
				}
				closes++
				if nerr == nil {
					pc := npc
					cur = &c18Open{closeFn: func() { _ = pc.Close() }, connType: netceptor.ConnTypeDatagram, tags: tags}
					labels = append(labels, "reopen-during-close:won")
				} else {
					cur = nil
					labels = append(labels, "reopen-during-close:refused")
					if round+1 < rounds {
						// open it again in the ordinary way and keep racing
						if pc, err := n.ListenPacketAndAdvertise(svc, tags); err == nil {
							cur = &c18Open{closeFn: func() { _ = pc.Close() }, connType: netceptor.ConnTypeDatagram, tags: tags}
						}
					}
				}
			}
			os.Unsetenv("VERIF_NET_DELAY")
			delete(open, k)
			if cur != nil {
				open[k] = cur
			}
		case "storm":
			// many advertised services of one node, closed one after the other across one advertisement period: some of the
			// closes fall between the moment the periodic round collects the node's services and the moment it sends them
			if !started[ni] {
				continue
			}
			n := m.Node(name).N
			k := 60 + (ev.Svc+ev.Tags)%3*60
			var pcs []netceptor.PacketConner
			for i := 0; i < k; i++ {
				pc, err := n.ListenPacketAndAdvertise(fmt.Sprintf("t%d-%d", stormCtr, i), nil)
				if err != nil {
					return vx.Inconclusive("storm open: %v", err)
				}
				pcs = append(pcs, pc)
			}
			stormCtr++
			time.Sleep(2*opts.ServiceAd + 50*time.Millisecond) // all of them have been advertised at least once
			per := opts.ServiceAd / time.Duration(k)
			for _, pc := range pcs {
				_ = pc.Close()
				time.Sleep(per)
			}
			closes += k
			labels = append(labels, "close-storm")
		case "close":
			var keys []string
			for k := range open {
				keys = append(keys, k)
			}
			if len(keys) == 0 {
				continue
			}
			sort.Strings(keys)
			k := keys[(ev.Node+ev.Svc)%len(keys)]
			o := open[k]
			delete(open, k)
			closes++
			// Listener.Close may block inside the QUIC library (C17's business): never wait for it longer than 5 s
			vx.WithDeadline(5*time.Second, o.closeFn)
			labels = append(labels, "close")
		}
	}
	for i := 0; i < s.N; i++ {
		if !started[i] {
			m.StartNode(nodeName(i))
			started[i] = true
			joins++
			labels = append(labels, "late-joiner")
		}
	}
	type adv struct {
		Node, Svc string
		ConnType  byte
		Tags      string
	}
	tagStr := func(t map[string]string) string {
		if len(t) == 0 {
			return ""
		}
		b, _ := json.Marshal(t)
		return string(b)
	}
	var want []adv
	for k, o := range open {
		var node, svc string
		fmt.Sscanf(replaceSlash(k), "%s %s", &node, &svc)
		want = append(want, adv{node, svc, o.connType, tagStr(o.tags)})
	}
	sort.Slice(want, func(i, j int) bool { return fmt.Sprint(want[i]) < fmt.Sprint(want[j]) })
	deadline := 40*opts.ServiceAd + 8*time.Second
	check := func() string {
		for i := 0; i < s.N; i++ {
			node := m.Node(nodeName(i))
			var st netceptor.Status
			if !vx.WithDeadline(5*time.Second, func() { st = node.N.Status() }) {
				return "Status blocked on " + nodeName(i)
			}
			var have []adv
			for _, a := range st.Advertisements {
				have = append(have, adv{a.NodeID, a.Service, a.ConnType, tagStr(a.Tags)})
			}
			sort.Slice(have, func(i, j int) bool { return fmt.Sprint(have[i]) < fmt.Sprint(have[j]) })
			if !reflect.DeepEqual(have, want) && !(len(have) == 0 && len(want) == 0) {
				return fmt.Sprintf("node %s lists %v, open advertised services are %v", nodeName(i), have, want)
			}
		}
		return ""
	}
	start := time.Now()
	msg := vx.WaitFor(deadline, 50*time.Millisecond, check)
	if msg == "" {
		time.Sleep(3 * opts.ServiceAd)
		msg = check()
	}
	if msg != "" {
		return vx.Violation("converge", "C18/no-convergence", "after %v: %s", time.Since(start).Round(time.Millisecond), msg)
	}
	return vx.OK(closes >= 1 && joins >= 1, dedup(labels)...)
}

var (
	c18TLSOnce sync.Once
	c18TLSCfg  *tls.Config
)

// c18TLS is a server-side TLS configuration (nobody dials these listeners; only their advertised type matters).
func c18TLS() *tls.Config {
	c18TLSOnce.Do(func() {
		ca := vx.NewCA("c18 listener", "c18-listener", nil)
		c18TLSCfg = &tls.Config{Certificates: []tls.Certificate{{Certificate: [][]byte{ca.Cert.Raw}, PrivateKey: ca.Key}}, MinVersion: tls.VersionTLS12}
	})
	return c18TLSCfg
}

func replaceSlash(s string) string {
	out := []byte(s)
	for i := range out {
		if out[i] == '/' {
			out[i] = ' '
		}
	}
	return string(out)
}

func init() {
	vx.Register("C18", execC18)
	vx.Register("C18.mesh", execC18Mesh)
}
