package netprops

import (
	"os"
	"strconv"
	"testing"
	"time"

	"pgregory.net/rapid"

	"verifharness/vx"
)

// genC09Cert draws a certificate for the given verified role: mostly all-good or single-fault tuples (the classes the
// statement speaks about), sometimes a fully random tuple. fault: -1 none, 0..3 the faulty dimension, 4 random.
func genC09Cert(t *rapid.T, label, role string, fault int) C09Cert {
	goodEKU := []string{"both", "absent", "any", role}
	c := C09Cert{
		CA:    rapid.SampledFrom([]string{"trusted", "via-inter"}).Draw(t, label+"ca"),
		Val:   "valid",
		EKU:   rapid.SampledFrom(goodEKU).Draw(t, label+"eku"),
		Names: rapid.SampledFrom([]string{"expected", "several-incl"}).Draw(t, label+"names"),
	}
	switch fault {
	case 0:
		c.CA = rapid.SampledFrom(c09CAs).Draw(t, label+"ca-f")
	case 1:
		c.Val = rapid.SampledFrom(c09Vals).Draw(t, label+"val-f")
	case 2:
		c.EKU = rapid.SampledFrom(c09EKUs).Draw(t, label+"eku-f")
	case 3:
		c.Names = rapid.SampledFrom(c09Names).Draw(t, label+"names-f")
	case 4:
		c = C09Cert{CA: rapid.SampledFrom(c09CAs).Draw(t, label+"ca-r"), Val: rapid.SampledFrom(c09Vals).Draw(t, label+"val-r"),
			EKU: rapid.SampledFrom(c09EKUs).Draw(t, label+"eku-r"), Names: rapid.SampledFrom(c09Names).Draw(t, label+"names-r")}
	}
	return c
}

func genFault(t *rapid.T, label string, dims int) int {
	switch k := rapid.IntRange(0, 9).Draw(t, label+"faultclass"); {
	case k < 2:
		return -1
	case k < 8:
		return rapid.IntRange(0, dims-1).Draw(t, label+"faultdim")
	}
	return 4
}

func genC09(t *rapid.T) C09Scn {
	s := C09Scn{Role: rapid.SampledFrom(c09Roles).Draw(t, "role"), Mode: rapid.SampledFrom(c09Modes).Draw(t, "mode"), Pins: "none"}
	fault := genFault(t, "", 5) // dimension 4 here = pins (5 = random handled below)
	goodPins := []string{"none", "none", "m256", "m512", "non32+m256", "m512+non32", "m224", "m384"}
	s.Pins = rapid.SampledFrom(goodPins).Draw(t, "pins")
	switch {
	case fault == 4 && rapid.Bool().Draw(t, "pinfault"):
		s.Cert = genC09Cert(t, "", s.Role, -1)
		s.Pins = rapid.SampledFrom(c09Pins).Draw(t, "pins-f")
	case fault == 4:
		s.Cert = genC09Cert(t, "", s.Role, 4)
		s.Pins = rapid.SampledFrom(c09Pins).Draw(t, "pins-r")
	default:
		s.Cert = genC09Cert(t, "", s.Role, fault)
	}
	// further peers presented to the same verifier / configuration: mostly acceptable certificates that differ from the
	// pinned one (so the pin alone must refuse them), sometimes the pinned one again
	nThen := rapid.SampledFrom([]int{0, 0, 1, 1, 2}).Draw(t, "nthen")
	for i := 0; i < nThen; i++ {
		if rapid.IntRange(0, 4).Draw(t, "then-same") == 0 {
			s.Then = append(s.Then, s.Cert)
		} else {
			s.Then = append(s.Then, genC09Cert(t, "then-", s.Role, genFault(t, "then-", 4)))
		}
	}
	return s
}

const c09Rule = "peer certificates from the product CA{trusted, via intermediate, intermediate missing, other CA, same subject other key, self-signed} x validity{valid, expired, not yet} x " +
	"EKU{server, client, both, absent, unrelated, any} x names{expected, other, several incl./excl., none, DNS-only, receptor-only, malformed otherName, near misses} x " +
	"pins{none, matching sha224/256/384/512, non-matching, wrong length, mixed, digest of the issuer} x verified role{server, client} x mode{receptor name, DNS host, DNS without host}; " +
	"oracle = independent decision procedure (accept iff chain, validity, usage, pin and name all hold); non-trivial = all conditions true or exactly one false; distinct by canonical JSON"

func TestC09Verify(t *testing.T) {
	st := vx.NewStats("C09", "verify", "[function returned by ReceptorVerifyFunc] "+c09Rule)
	defer st.Flush()
	r := &vx.Runner{Name: "C09.verify", InProc: true}
	rapid.Check(t, func(t *rapid.T) {
		s := genC09(t)
		st.Judge(t, s, r.Run(s))
	})
}

// TestC09Enumerate walks the complete attribute product (no sampling); shards split it by index.
func TestC09Enumerate(t *testing.T) {
	st := vx.NewStats("C09", "enumerate", "[complete enumeration, function returned by ReceptorVerifyFunc] "+c09Rule)
	defer st.Flush()
	r := &vx.Runner{Name: "C09.verify", InProc: true}
	shard, _ := strconv.Atoi(os.Getenv("VX_SHARD"))
	shards, _ := strconv.Atoi(os.Getenv("VX_SHARDS"))
	if shards < 1 {
		shards = 1
	}
	i := 0
	for _, ca := range c09CAs {
		for _, val := range c09Vals {
			for _, eku := range c09EKUs {
				for _, names := range c09Names {
					for _, pins := range c09Pins {
						for _, role := range c09Roles {
							for _, mode := range c09Modes {
								i++
								if i%shards != shard {
									continue
								}
								s := C09Scn{Cert: C09Cert{CA: ca, Val: val, EKU: eku, Names: names}, Pins: pins, Role: role, Mode: mode}
								st.Judge(t, s, r.Run(s))
							}
						}
					}
				}
			}
		}
	}
	st.Count("product_size", i)
}

func TestC09TLS(t *testing.T) {
	st := vx.NewStats("C09", "tls", "[real crypto/tls handshake over an in-memory pipe; configurations built by PrepareTLSClientConfig+GetClientTLSConfig / PrepareTLSServerConfig from files] "+c09Rule)
	defer st.Flush()
	r := &vx.Runner{Name: "C09.tls", InProc: true}
	rapid.Check(t, func(t *rapid.T) {
		s := genC09(t)
		st.Judge(t, s, r.Run(s))
	})
}

func TestC09Mesh(t *testing.T) {
	st := vx.NewStats("C09", "mesh", "[two-node mesh, mutually authenticated stream listener: DialContext/Accept + echo] certificates for the dialling node (must name the node the packets come from) "+
		"and the listening node drawn from the same product; non-trivial = both acceptable or exactly one refused")
	defer st.Flush()
	r := &vx.Runner{Name: "C09.mesh", Timeout: 90 * time.Second, Recycle: 50}
	defer r.Close()
	rapid.Check(t, func(t *rapid.T) {
		s := C09Mesh{Dialer: genC09Cert(t, "d-", "client", genFault(t, "d-", 4)), Listener: genC09Cert(t, "l-", "server", genFault(t, "l-", 4))}
		st.Judge(t, s, r.Run(s))
	})
}
