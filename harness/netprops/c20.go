package netprops

import (
	"bytes"
	"crypto/tls"
	"crypto/x509"
	"crypto/x509/pkix"
	"encoding/asn1"
	"encoding/json"
	"fmt"
	"net"
	"os"
	"path/filepath"
	"reflect"
	"sync"
	"time"
	"unicode/utf8"

	"github.com/ansible/receptor/pkg/certificates"
	"github.com/ansible/receptor/pkg/logger"
	"github.com/ansible/receptor/pkg/netceptor"
	"github.com/ansible/receptor/pkg/utils"

	"verifharness/vx"
)

// ---- scenario: issue a certificate through the built-in tooling -------------------------------------------

type C20Scn struct {
	NodeIDs []string `json:"ids"`
	DNS     []string `json:"dns"`
	IPs     []string `json:"ips"`
	NewKey  bool     `json:"newkey"` // CreateCertReqWithKey (1024 bit, to keep it cheap) instead of an existing key
	Files   bool     `json:"files"`  // go through MakeReq / SignReq and PEM files
	NBOffH  int      `json:"nb"`     // NotBefore = now + nb hours
	NAOffH  int      `json:"na"`     // NotAfter  = now + na hours (> nb)
	Others  []string `json:"others"` // IDs the certificate must NOT verify as (those equal to a requested ID are skipped)
}

var (
	c20Once sync.Once
	c20CA   *certificates.CA
	c20Log  *logger.ReceptorLogger
)

func c20Init() {
	c20Once.Do(func() {
		c20Log = logger.NewReceptorLogger("c20")
		// the CA is made by receptor's own tooling (CreateCA); key generation goes through the package's wrapper
		ca, err := certificates.CreateCA(&certificates.CertOptions{CommonName: "verif CA", Bits: 2048}, &certificates.RsaWrapper{})
		if err != nil {
			panic(err)
		}
		c20CA = ca
	})
}

func ipsEqual(a, b []net.IP) bool {
	if len(a) != len(b) {
		return false
	}
	for i := range a {
		if !a[i].Equal(b[i]) {
			return false
		}
	}
	return true
}

func strsEqual(a, b []string) bool {
	if len(a) != len(b) {
		return false
	}
	for i := range a {
		if a[i] != b[i] {
			return false
		}
	}
	return true
}

func execC20(b []byte) vx.Verdict {
	var s C20Scn
	if err := json.Unmarshal(b, &s); err != nil {
		return vx.Inconclusive("bad scenario: %v", err)
	}
	c20Init()
	var ips []net.IP
	for _, t := range s.IPs {
		ip := net.ParseIP(t)
		if ip == nil {
			return vx.Inconclusive("generator produced unparsable IP %q", t)
		}
		ips = append(ips, ip)
	}
	now := time.Now()
	nb, na := now.Add(time.Duration(s.NBOffH)*time.Hour), now.Add(time.Duration(s.NAOffH)*time.Hour)
	reqOpts := &certificates.CertOptions{CommonName: "leaf", Bits: 1024,
		CertNames: certificates.CertNames{DNSNames: s.DNS, NodeIDs: s.NodeIDs, IPAddresses: ips}}
	signOpts := &certificates.CertOptions{NotBefore: nb, NotAfter: na}
	var req *x509.CertificateRequest
	var cert *x509.Certificate
	var err error
	labels := []string{}
	if s.Files {
		labels = append(labels, "via-files")
		if len(s.NodeIDs)+len(s.DNS)+len(ips) == 0 {
			// SignReq documents "cannot sign: no names found" for empty requests; covered by the direct path only
			s.Files = false
		}
	}
	if s.Files {
		dir, derr := os.MkdirTemp("", "c20")
		if derr != nil {
			return vx.Inconclusive("tempdir: %v", derr)
		}
		defer os.RemoveAll(dir)
		ow := &certificates.OsWrapper{}
		caCrt, caKey := filepath.Join(dir, "ca.crt"), filepath.Join(dir, "ca.key")
		if err := certificates.SaveToPEMFile(caCrt, []interface{}{c20CA.Certificate}, ow); err != nil {
			return vx.Inconclusive("save ca: %v", err)
		}
		if err := certificates.SaveToPEMFile(caKey, []interface{}{c20CA.PrivateKey}, ow); err != nil {
			return vx.Inconclusive("save ca key: %v", err)
		}
		keyIn, keyOut := "", filepath.Join(dir, "leaf.key")
		if !s.NewKey {
			keyIn = filepath.Join(dir, "in.key")
			if err := certificates.SaveToPEMFile(keyIn, []interface{}{vx.Key("leaf")}, ow); err != nil {
				return vx.Inconclusive("save key: %v", err)
			}
			keyOut = ""
		}
		reqPath, certPath := filepath.Join(dir, "leaf.req"), filepath.Join(dir, "leaf.crt")
		if err := certificates.MakeReq(reqOpts, keyIn, keyOut, reqPath, ow); err != nil {
			return vx.Violation("request-created", "C20/makereq-error", "MakeReq failed for %s: %v", string(b), err)
		}
		if err := certificates.SignReq(signOpts, caCrt, caKey, reqPath, certPath, true, ow); err != nil {
			return vx.Violation("certificate-issued", "C20/signreq-error", "SignReq failed for a request made by MakeReq (%s): %v", string(b), err)
		}
		if req, err = certificates.LoadRequest(reqPath, ow); err != nil {
			return vx.Violation("request-created", "C20/request-unreadable", "LoadRequest: %v", err)
		}
		if cert, err = certificates.LoadCertificate(certPath, ow); err != nil {
			return vx.Violation("certificate-issued", "C20/cert-unreadable", "LoadCertificate: %v", err)
		}
	} else {
		if s.NewKey {
			labels = append(labels, "new-key")
			req, _, err = certificates.CreateCertReqWithKey(reqOpts)
		} else {
			req, err = certificates.CreateCertReq(reqOpts, vx.Key("leaf"))
		}
		if err != nil {
			return vx.Violation("request-created", "C20/createreq-error", "CreateCertReq failed for %s: %v", string(b), err)
		}
		cert, err = certificates.SignCertReq(req, c20CA, signOpts)
		if err != nil {
			return vx.Violation("certificate-issued", "C20/sign-error", "SignCertReq failed for %s: %v", string(b), err)
		}
	}
	// --- the request carries exactly the names
	names, err := certificates.GetReqNames(req)
	if err != nil {
		return vx.Violation("request-names", "C20/req-names-unreadable", "GetReqNames on the tooling's own request failed: %v (ids %q)", err, s.NodeIDs)
	}
	if !strsEqual(names.NodeIDs, s.NodeIDs) || !strsEqual(names.DNSNames, s.DNS) || !ipsEqual(names.IPAddresses, ips) {
		return vx.Violation("request-names", "C20/req-names-differ", "request names %+v differ from requested ids=%q dns=%q ips=%v", names, s.NodeIDs, s.DNS, ips)
	}
	// --- the certificate carries exactly the names
	if !strsEqual(cert.DNSNames, s.DNS) || !ipsEqual(cert.IPAddresses, ips) {
		return vx.Violation("cert-names", "C20/cert-dns-ip-differ", "certificate DNS %q IPs %v differ from requested %q %v", cert.DNSNames, cert.IPAddresses, s.DNS, ips)
	}
	for i, t := range s.IPs {
		// an address requested in dotted IPv4 form must be a 4-octet iPAddress name (RFC 5280), not its IPv6-mapped form;
		// addresses requested in the mapped form are not constrained either way
		if !bytes.Contains([]byte(t), []byte(":")) && len(cert.IPAddresses[i]) != 4 {
			return vx.Violation("cert-names", "C20/ipv4-not-4-octets", "IPv4 address %s is encoded with %d octets", t, len(cert.IPAddresses[i]))
		}
	}
	got, err := utils.ReceptorNames(cert.Extensions)
	if err != nil {
		return vx.Violation("cert-names", "C20/cert-ids-unreadable", "ReceptorNames on the issued certificate failed: %v (requested ids %q, lengths %v)", err, s.NodeIDs, lens(s.NodeIDs))
	}
	if !strsEqual(got, s.NodeIDs) {
		return vx.Violation("cert-names", "C20/cert-ids-differ", "certificate node IDs %q differ from requested %q", got, s.NodeIDs)
	}
	if len(cert.EmailAddresses)+len(cert.URIs) > 0 {
		return vx.Violation("cert-names", "C20/cert-extra-names", "certificate has names nobody asked for: %v %v", cert.EmailAddresses, cert.URIs)
	}
	if !cert.NotBefore.Equal(nb.UTC().Truncate(time.Second)) || !cert.NotAfter.Equal(na.UTC().Truncate(time.Second)) {
		return vx.Violation("validity", "C20/validity-differs", "validity %v..%v differs from requested %v..%v", cert.NotBefore, cert.NotAfter, nb, na)
	}
	// --- chains to the authority
	if err := cert.CheckSignatureFrom(c20CA.Certificate); err != nil {
		return vx.Violation("chains", "C20/not-signed-by-ca", "certificate is not signed by the authority: %v", err)
	}
	// --- receptor's own verification
	tlscfg := &tls.Config{RootCAs: vx.PoolOf(c20CA.Certificate)}
	inWindow := s.NBOffH <= -1 && s.NAOffH >= 1
	verify := func(id string) error {
		f := netceptor.ReceptorVerifyFunc(tlscfg, nil, id, netceptor.ExpectedHostnameTypeReceptor, netceptor.VerifyServer, c20Log)
		return f([][]byte{cert.Raw}, nil)
	}
	if s.NBOffH > -1 && s.NBOffH < 1 || s.NAOffH > -1 && s.NAOffH < 1 {
		// window edge within an hour of now: not asserted either way
	} else {
		for _, id := range s.NodeIDs {
			err := verify(id)
			if inWindow && err != nil {
				return vx.Violation("verifies-as-requested", "C20/own-id-refused", "certificate issued for ids %q is refused for %q: %v", s.NodeIDs, id, err)
			}
			if !inWindow && err == nil {
				return vx.Violation("validity", "C20/outside-window-accepted", "certificate valid %v..%v accepted now", cert.NotBefore, cert.NotAfter)
			}
		}
		for _, o := range s.Others {
			own := false
			for _, id := range s.NodeIDs {
				if id == o {
					own = true
				}
			}
			if own {
				continue
			}
			if err := verify(o); err == nil {
				return vx.Violation("verifies-as-no-other", "C20/other-id-accepted", "certificate issued for ids %q is accepted for %q", s.NodeIDs, o)
			}
		}
	}
	long, nonascii, dup := false, false, false
	seen := map[string]bool{}
	for _, id := range s.NodeIDs {
		if len(id) >= 113 {
			long = true
		}
		if len(id) != utf8.RuneCountInString(id) {
			nonascii = true
		}
		if seen[id] {
			dup = true
		}
		seen[id] = true
	}
	if long {
		labels = append(labels, "id>=113B")
	}
	if nonascii {
		labels = append(labels, "non-ascii-id")
	}
	if dup {
		labels = append(labels, "duplicate-id")
	}
	if len(s.NodeIDs) == 0 {
		labels = append(labels, "no-ids")
	}
	if !inWindow {
		labels = append(labels, "window-excludes-now")
	}
	return vx.OK(long || nonascii || (len(s.NodeIDs) >= 3 && dup), labels...)
}

func lens(s []string) []int {
	o := make([]int, len(s))
	for i := range s {
		o[i] = len(s[i])
	}
	return o
}

// ---- scenario: arbitrary subjectAltName extensions built from a DER grammar --------------------------------

type DerItem struct {
	Kind    string `json:"k"`             // dns | ip | rid | on (otherName)
	OID     string `json:"oid,omitempty"` // receptor | other | prefix | longer
	StrTag  int    `json:"st,omitempty"`  // universal tag of the inner value: 12 utf8, 19 printable, 22 ia5, 2 int, 4 octet, 5 null, 16 seq
	Val     string `json:"v"`
	Class   int    `json:"cl,omitempty"`   // outer class of the GeneralName element: 2 context (normal), 1 application, 0 universal
	Prim    bool   `json:"prim,omitempty"` // outer element flagged primitive instead of constructed
	InTag   int    `json:"it,omitempty"`   // explicit tag number around the value (0 is normal)
	InPrim  bool   `json:"ip,omitempty"`   // explicit wrapper flagged primitive
	LongLen bool   `json:"ll,omitempty"`   // non-minimal length encoding of the inner string
	Trail   string `json:"tr,omitempty"`   // extra bytes appended inside the explicit wrapper
	NoValue bool   `json:"nv,omitempty"`   // the otherName holds the type OID only, the value element is missing
}

type DerMut struct {
	Pos int  `json:"p"` // position modulo length
	Op  int  `json:"o"` // 0 set byte, 1 xor bit, 2 delete, 3 insert, 4 truncate here
	B   byte `json:"b"`
}

type C20Der struct {
	Items []DerItem `json:"items"`
	Muts  []DerMut  `json:"muts,omitempty"`
	InReq bool      `json:"inreq"` // read back through a certificate request's extension list as well
}

func derLen(n int, long bool) []byte {
	if long {
		return []byte{0x82, byte(n >> 8), byte(n)}
	}
	switch {
	case n < 128:
		return []byte{byte(n)}
	case n < 256:
		return []byte{0x81, byte(n)}
	default:
		return []byte{0x82, byte(n >> 8), byte(n)}
	}
}

func derTLV(class int, constructed bool, tag int, content []byte, long bool) []byte {
	id := byte(class<<6) | byte(tag&0x1f)
	if constructed {
		id |= 0x20
	}
	out := append([]byte{id}, derLen(len(content), long)...)
	return append(out, content...)
}

var oidBytes = map[string][]byte{
	"receptor": {0x2b, 0x06, 0x01, 0x04, 0x01, 0x92, 0x08, 0x13, 0x01},
	"other":    {0x2b, 0x06, 0x01, 0x04, 0x01, 0x92, 0x08, 0x13, 0x02},
	"prefix":   {0x2b, 0x06, 0x01, 0x04, 0x01, 0x92, 0x08, 0x13},
	"longer":   {0x2b, 0x06, 0x01, 0x04, 0x01, 0x92, 0x08, 0x13, 0x01, 0x01},
}

func validForStrTag(tag int, s string) bool {
	switch tag {
	case 12:
		return utf8.ValidString(s)
	case 22:
		for i := 0; i < len(s); i++ {
			if s[i] >= 0x80 {
				return false
			}
		}
		return true
	case 19:
		for i := 0; i < len(s); i++ {
			c := s[i]
			ok := c >= 'a' && c <= 'z' || c >= 'A' && c <= 'Z' || c >= '0' && c <= '9' || bytes.IndexByte([]byte(" '()+,-./:=?"), c) >= 0
			if !ok {
				return false
			}
		}
		return true
	}
	return false
}

// class of an item: "name" (a well-formed receptor name: must be returned), "none" (cannot be a receptor name: must
// not contribute), "lenient" (receptor OID but not the standard shape: may contribute its own value, nothing, or an error)
func (it DerItem) classify() string {
	if it.Kind != "on" {
		return "none"
	}
	if it.NoValue {
		if it.OID == "receptor" && it.Class == 2 && !it.Prim {
			return "undecodable" // marked as a receptor name by a well-formed outer element, but there is no value to read
		}
		return "lenient"
	}
	if it.OID != "receptor" {
		if it.Class == 2 && !it.Prim {
			return "none"
		}
		return "lenient"
	}
	nonMinimal := it.LongLen && len(it.Val) < 256 // the 0x82 length form is the minimal one from 256 bytes on
	if it.Class == 2 && !it.Prim && it.InTag == 0 && !it.InPrim && !nonMinimal && it.Trail == "" && validForStrTag(it.StrTag, it.Val) {
		return "name"
	}
	if it.Class == 2 && !it.Prim && it.InTag == 0 && !it.InPrim && (nonMinimal || it.StrTag == 2 || it.StrTag == 4 || it.StrTag == 5 || it.StrTag == 16) {
		// a receptor-name entry of the standard outer shape whose value is not a string at all (or not DER): the encoded
		// ID cannot be read, so "exactly the encoded IDs" is impossible and only an error satisfies the statement
		return "undecodable"
	}
	return "lenient"
}

func (it DerItem) encode() []byte {
	switch it.Kind {
	case "dns":
		return derTLV(2, false, 2, []byte(it.Val), false)
	case "ip":
		ip := net.ParseIP(it.Val)
		if ip4 := ip.To4(); ip4 != nil {
			ip = ip4
		}
		return derTLV(2, false, 7, ip, false)
	case "rid":
		return derTLV(2, false, 8, oidBytes["other"], false)
	}
	var inner []byte
	switch it.StrTag {
	case 5:
		inner = []byte{5, 0}
	case 16:
		inner = derTLV(0, true, 16, derTLV(0, false, 12, []byte(it.Val), false), false)
	default:
		inner = derTLV(0, false, it.StrTag, []byte(it.Val), it.LongLen)
	}
	inner = append(inner, []byte(it.Trail)...)
	wrapped := derTLV(2, !it.InPrim, it.InTag, inner, false)
	oid := oidBytes[it.OID]
	if oid == nil {
		oid = oidBytes["other"]
	}
	content := append(derTLV(0, false, 6, oid, false), wrapped...)
	if it.NoValue {
		content = derTLV(0, false, 6, oid, false)
	}
	return derTLV(it.Class, !it.Prim, 0, content, false)
}

// ---- strict independent reader (only used on mutated bytes) --------------------------------------------------

type tlv struct {
	class, tag  int
	constructed bool
	content     []byte
}

func readTLV(b []byte) (t tlv, rest []byte, ok bool) {
	if len(b) < 2 {
		return t, nil, false
	}
	t.class, t.constructed, t.tag = int(b[0]>>6), b[0]&0x20 != 0, int(b[0]&0x1f)
	if t.tag == 0x1f {
		return t, nil, false // high tag numbers: not used by any GeneralName; treated as ill-formed
	}
	n, off := 0, 2
	switch l := b[1]; {
	case l < 0x80:
		n = int(l)
	case l == 0x81:
		if len(b) < 3 || b[2] < 0x80 {
			return t, nil, false
		}
		n, off = int(b[2]), 3
	case l == 0x82:
		if len(b) < 4 || b[2] == 0 {
			return t, nil, false
		}
		n, off = int(b[2])<<8|int(b[3]), 4
	default:
		return t, nil, false
	}
	if len(b) < off+n {
		return t, nil, false
	}
	t.content = b[off : off+n]
	return t, b[off+n:], true
}

// strictNames returns the receptor names of a SAN extension value if the whole value is well-formed DER of the
// standard shape; ok=false when anything is out of the ordinary (then nothing is asserted about ReceptorNames).
func strictNames(san []byte) (names []string, ok bool) {
	seq, rest, ok := readTLV(san)
	if !ok || len(rest) != 0 || seq.class != 0 || seq.tag != 16 || !seq.constructed {
		return nil, false
	}
	names = []string{}
	b := seq.content
	for len(b) > 0 {
		var gn tlv
		gn, b, ok = readTLV(b)
		if !ok || gn.class != 2 {
			return nil, false
		}
		if gn.tag != 0 {
			if gn.constructed && gn.tag != 3 && gn.tag != 4 && gn.tag != 5 {
				return nil, false
			}
			continue
		}
		if !gn.constructed {
			return nil, false
		}
		oid, r2, ok := readTLV(gn.content)
		if !ok || oid.class != 0 || oid.tag != 6 || oid.constructed || len(oid.content) == 0 {
			return nil, false
		}
		wrap, r3, ok := readTLV(r2)
		if !ok || len(r3) != 0 || wrap.class != 2 || wrap.tag != 0 || !wrap.constructed {
			return nil, false
		}
		if !bytes.Equal(oid.content, oidBytes["receptor"]) {
			// the OID must at least be well-formed base-128 for Go to accept it: last byte < 0x80, no leading 0x80
			if oid.content[len(oid.content)-1]&0x80 != 0 {
				return nil, false
			}
			for i, c := range oid.content {
				if c == 0x80 && (i == 0 || oid.content[i-1]&0x80 == 0) {
					return nil, false
				}
			}
			// any inner value is fine structurally only if it is one well-formed TLV
			if _, r4, ok := readTLV(wrap.content); !ok || len(r4) != 0 {
				return nil, false
			}
			continue
		}
		str, r4, ok := readTLV(wrap.content)
		if !ok || len(r4) != 0 || str.class != 0 || str.constructed || !validForStrTag(str.tag, string(str.content)) {
			return nil, false
		}
		names = append(names, string(str.content))
	}
	return names, true
}

func applyMuts(b []byte, muts []DerMut) []byte {
	b = append([]byte{}, b...)
	for _, m := range muts {
		if len(b) == 0 {
			break
		}
		p := m.Pos % len(b)
		switch m.Op % 5 {
		case 0:
			b[p] = m.B
		case 1:
			b[p] ^= 1 << (m.B % 8)
		case 2:
			b = append(b[:p], b[p+1:]...)
		case 3:
			b = append(b[:p], append([]byte{m.B}, b[p:]...)...)
		case 4:
			b = b[:p]
		}
	}
	return b
}

// matchNames: can result r be explained by the items in order (name: must appear; lenient: may appear; none: never)?
func matchNames(items []DerItem, r []string) bool {
	if len(items) == 0 {
		return len(r) == 0
	}
	it := items[0]
	switch it.classify() {
	case "none":
		return matchNames(items[1:], r)
	case "name":
		return len(r) > 0 && r[0] == it.Val && matchNames(items[1:], r[1:])
	default:
		if len(r) > 0 && r[0] == it.Val && matchNames(items[1:], r[1:]) {
			return true
		}
		return matchNames(items[1:], r)
	}
}

func execC20Der(b []byte) vx.Verdict {
	var s C20Der
	if err := json.Unmarshal(b, &s); err != nil {
		return vx.Inconclusive("bad scenario: %v", err)
	}
	var content []byte
	for _, it := range s.Items {
		content = append(content, it.encode()...)
	}
	san := derTLV(0, true, 16, content, false)
	labels := []string{}
	exts := []pkix.Extension{{Id: asn1.ObjectIdentifier{2, 5, 29, 17}, Value: san}}
	if len(s.Muts) == 0 {
		got, err := utils.ReceptorNames(exts)
		allStd := true
		anyName := false
		for _, it := range s.Items {
			c := it.classify()
			if c == "lenient" || c == "undecodable" {
				allStd = false
			}
			if c == "name" {
				anyName = true
			}
		}
		if err != nil {
			if allStd {
				// a fully standard extension: the statement allows an error, but the tooling's own output is of this shape,
				// so an error here is reported (it would also make every issued certificate unusable)
				return vx.Violation("read-back", "C20/standard-san-unreadable", "ReceptorNames failed on a standard subjectAltName %x: %v (items %s)", san, err, string(b))
			}
			return vx.OK(false, "der:error-on-nonstandard")
		}
		for _, it := range s.Items {
			if it.classify() == "undecodable" {
				return vx.Violation("read-back", "C20/undecodable-entry-skipped", "ReceptorNames returned %q without error although a receptor-name entry cannot be decoded (items %s, san %x)", got, string(b), san)
			}
		}
		if !matchNames(s.Items, got) {
			return vx.Violation("read-back", "C20/different-name", "ReceptorNames returned %q for items %s (san %x)", got, string(b), san)
		}
		if allStd {
			labels = append(labels, "der:standard")
		} else {
			labels = append(labels, "der:nonstandard-accepted")
		}
		return vx.OK(anyName && len(s.Items) >= 2, labels...)
	}
	mut := applyMuts(san, s.Muts)
	exts[0].Value = mut
	got, err := utils.ReceptorNames(exts)
	want, strictOK := strictNames(mut)
	if !strictOK {
		v := vx.OK(false, "mut:ill-formed")
		v.Unconstrained = 1
		return v
	}
	if err != nil {
		return vx.OK(false, "mut:wellformed-error")
	}
	if !reflect.DeepEqual(got, want) && !(len(got) == 0 && len(want) == 0) {
		return vx.Violation("read-back", "C20/different-name-mutated", "ReceptorNames returned %q, strict reader %q for %x", got, want, mut)
	}
	return vx.OK(len(want) > 0, "mut:wellformed-agree")
}

func init() {
	vx.Register("C20.issue", execC20)
	vx.Register("C20.der", execC20Der)
	_ = fmt.Sprint
}
