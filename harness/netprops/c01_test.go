package netprops

import (
	"os"
	"testing"
	"time"

	"pgregory.net/rapid"

	"verifharness/vx"
)

func thorough() bool { return os.Getenv("VX_TIER") == "thorough" }

// genGraph draws a graph on n nodes: random spanning tree (optionally with one tree edge left out = two components)
// plus extra edges; at most one link per node pair.
func genGraph(t *rapid.T, n int, maxExtra int, allowSplit bool) [][2]int {
	var edges [][2]int
	have := map[[2]int]bool{}
	add := func(a, b int) {
		if a == b {
			return
		}
		if a > b {
			a, b = b, a
		}
		if have[[2]int{a, b}] {
			return
		}
		have[[2]int{a, b}] = true
		edges = append(edges, [2]int{a, b})
	}
	skip := -1
	if allowSplit && n >= 3 && rapid.IntRange(0, 5).Draw(t, "split") == 0 {
		skip = rapid.IntRange(1, n-1).Draw(t, "splitAt")
	}
	for i := 1; i < n; i++ {
		p := rapid.IntRange(0, i-1).Draw(t, "parent")
		if i == skip {
			continue
		}
		add(p, i)
	}
	extra := rapid.IntRange(0, maxExtra).Draw(t, "extra")
	for k := 0; k < extra; k++ {
		add(rapid.IntRange(0, n-1).Draw(t, "ea"), rapid.IntRange(0, n-1).Draw(t, "eb"))
	}
	return edges
}

func genDelays(t *rapid.T, label string) []int {
	if rapid.IntRange(0, 2).Draw(t, label+"-has") == 0 {
		return nil
	}
	return rapid.SliceOfN(rapid.SampledFrom([]int{0, 0, 1, 5, 20, 50}), 1, 5).Draw(t, label)
}

func genC01(t *rapid.T) C01Scn {
	n := rapid.IntRange(2, 7).Draw(t, "n")
	s := C01Scn{N: n, InitWaitMs: rapid.SampledFrom([]int{0, 50, 300, 1000}).Draw(t, "initwait"),
		IdleMs: rapid.SampledFrom([]int{1500, 2000, 3000}).Draw(t, "idle")}
	for _, e := range genGraph(t, n, n, true) {
		s.Links = append(s.Links, C01Link{A: e[0], B: e[1],
			Cost4: rapid.SampledFrom([]int{1, 2, 4, 4, 4, 8, 8, 12, 40}).Draw(t, "cost4"),
			OvA:   rapid.Bool().Draw(t, "ova"), OvB: rapid.Bool().Draw(t, "ovb"),
			DelAB: genDelays(t, "dab"), DelBA: genDelays(t, "dba")})
	}
	if rapid.IntRange(0, 2).Draw(t, "idleskew") == 0 {
		s.IdleSlow = rapid.SliceOfNDistinct(rapid.IntRange(0, n-1), 1, (n+1)/2, func(i int) int { return i }).Draw(t, "idleslow")
	}
	nev := rapid.IntRange(0, 8).Draw(t, "nev")
	// one scenario in six: nodes that have been up for hundreds of update periods before the first event, one of which then restarts
	// (what a restarted node is remembered by - epoch, sequence number - is then far ahead of what its new incarnation sends)
	aged := rapid.IntRange(0, 5).Draw(t, "aged") == 0
	agedAt := -1
	if aged {
		s.RouteMs, s.InitWaitMs = 25, 8000
		nev = rapid.IntRange(2, 8).Draw(t, "nevAged")
		agedAt = rapid.IntRange(0, nev-2).Draw(t, "agedAt")
	}
	silentBudget := 1
	for i := 0; i < nev; i++ {
		k := rapid.SampledFrom([]string{"linkDown", "linkDown", "linkUp", "linkUp", "silent", "nodeStop", "nodeRestart"}).Draw(t, "kind")
		if i == agedAt {
			k = "nodeRestart"
		}
		if k == "silent" {
			if silentBudget == 0 {
				k = "linkDown"
			} else {
				silentBudget--
			}
		}
		s.Events = append(s.Events, C01Event{Kind: k, Idx: rapid.IntRange(0, 20).Draw(t, "idx"),
			GapMs: rapid.SampledFrom([]int{0, 0, 10, 60, 150, 300}).Draw(t, "gap")})
		if k == "silent" && rapid.Bool().Draw(t, "heals") {
			// the failure goes away again: the link works for new sessions while each side still holds the dead one until its own idle
			// limit strikes, so the side that gives up first re-dials a peer that believes it is still connected
			s.Events = append(s.Events, C01Event{Kind: "linkUp", Idx: s.Events[len(s.Events)-1].Idx, GapMs: rapid.SampledFrom([]int{300, 1500, 3000}).Draw(t, "healgap")})
		}
	}
	return s
}

func TestC01(t *testing.T) {
	st := vx.NewStats("C01", "mesh", "real in-process meshes of 2-7 nodes over ordered in-memory links (spanning tree + extra edges, sometimes two "+
		"components; costs multiples of 0.25 with deliberate ties, expressed as backend default or per-node override) with 0-8 events "+
		"{linkDown, linkUp, silent failure, nodeStop, nodeRestart} at drawn gaps and per-link delay lists; in a third of the scenarios some nodes have four times the idle limit of the others; a silent failure heals again in half of the cases (new sessions work while each side holds the dead one until its own idle limit); one scenario in six runs with a 25 ms update period and 8 s of uptime (320 updates per node) before a node restart; oracle = Floyd-Warshall on the true live graph; "+
		"non-trivial = >=3 nodes and (events changed some node's expected table, or a multi-hop route with a cost tie); distinct by canonical JSON")
	defer st.Flush()
	r := &vx.Runner{Name: "C01", Timeout: 150 * time.Second, Recycle: 40}
	defer r.Close()
	rapid.Check(t, func(t *rapid.T) {
		s := genC01(t)
		st.Judge(t, s, r.Run(s))
	})
}
