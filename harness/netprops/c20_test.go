package netprops

import (
	"fmt"
	"strings"
	"testing"

	"pgregory.net/rapid"

	"verifharness/vx"
)

var c20Runes = []rune("abcXYZ019 .:-_/@é✓日本𝄞ß\t")

func genNodeID() *rapid.Generator[string] {
	return rapid.Custom(func(t *rapid.T) string {
		var n int
		switch rapid.IntRange(0, 9).Draw(t, "lenclass") {
		case 0:
			n = rapid.IntRange(0, 1).Draw(t, "n")
		case 1, 2, 3:
			n = rapid.IntRange(1, 20).Draw(t, "n")
		case 4, 5:
			n = rapid.IntRange(100, 135).Draw(t, "n")
		case 6:
			n = rapid.IntRange(200, 300).Draw(t, "n")
		case 7:
			n = rapid.IntRange(900, 1100).Draw(t, "n")
		default:
			n = rapid.IntRange(1, 64).Draw(t, "n")
		}
		ascii := rapid.IntRange(0, 2).Draw(t, "ascii") > 0
		var sb strings.Builder
		if ascii {
			// cheap long IDs: a drawn short seed repeated to the drawn byte length
			seed := rapid.StringMatching(`[a-zA-Z0-9._-]{1,6}`).Draw(t, "seed")
			for sb.Len() < n {
				sb.WriteString(seed)
			}
			return sb.String()[:n]
		}
		for i := 0; i < n && i < 40; i++ {
			sb.WriteRune(rapid.SampledFrom(c20Runes).Draw(t, "r"))
		}
		for sb.Len() < n { // pad with a multi-byte rune up to the byte length class
			sb.WriteRune('é')
		}
		return sb.String()
	})
}

func genHost() *rapid.Generator[string] {
	return rapid.Custom(func(t *rapid.T) string {
		n := rapid.IntRange(1, 4).Draw(t, "labels")
		parts := make([]string, n)
		for i := range parts {
			parts[i] = rapid.StringMatching(`[a-z0-9]([a-z0-9-]{0,10}[a-z0-9])?`).Draw(t, "label")
		}
		h := strings.Join(parts, ".")
		if rapid.IntRange(0, 9).Draw(t, "wild") == 0 {
			h = "*." + h
		}
		return h
	})
}

func genIP() *rapid.Generator[string] {
	return rapid.Custom(func(t *rapid.T) string {
		switch rapid.IntRange(0, 3).Draw(t, "ipk") {
		case 0, 1:
			return fmt.Sprintf("%d.%d.%d.%d", rapid.IntRange(0, 255).Draw(t, "a"), rapid.IntRange(0, 255).Draw(t, "b"), rapid.IntRange(0, 255).Draw(t, "c"), rapid.IntRange(0, 255).Draw(t, "d"))
		case 2:
			return fmt.Sprintf("2001:db8::%x:%x", rapid.IntRange(0, 65535).Draw(t, "h1"), rapid.IntRange(0, 65535).Draw(t, "h2"))
		}
		return rapid.SampledFrom([]string{"::1", "::", "::ffff:10.1.2.3", "fe80::1", "0.0.0.0", "255.255.255.255"}).Draw(t, "special")
	})
}

func genC20(t *rapid.T) C20Scn {
	s := C20Scn{
		NodeIDs: rapid.SliceOfN(genNodeID(), 0, 6).Draw(t, "ids"),
		DNS:     rapid.SliceOfN(genHost(), 0, 4).Draw(t, "dns"),
		IPs:     rapid.SliceOfN(genIP(), 0, 3).Draw(t, "ips"),
		NewKey:  rapid.IntRange(0, 15).Draw(t, "newkey") == 0,
		Files:   rapid.IntRange(0, 5).Draw(t, "files") == 0,
	}
	if len(s.NodeIDs) >= 1 && rapid.IntRange(0, 3).Draw(t, "dup") == 0 {
		s.NodeIDs = append(s.NodeIDs, s.NodeIDs[rapid.IntRange(0, len(s.NodeIDs)-1).Draw(t, "dupidx")])
	}
	switch rapid.IntRange(0, 9).Draw(t, "window") {
	case 0:
		s.NBOffH, s.NAOffH = -48, -rapid.IntRange(1, 24).Draw(t, "expiredago")
	case 1:
		s.NBOffH, s.NAOffH = rapid.IntRange(1, 24).Draw(t, "startsin"), 72
	default:
		s.NBOffH, s.NAOffH = -rapid.IntRange(1, 10000).Draw(t, "nb"), rapid.IntRange(1, 100000).Draw(t, "na")
	}
	// other IDs: neighbours of the requested ones (prefix, suffix, case variant, doubled) plus fixed ones
	s.Others = []string{"", "someone-else"}
	for _, id := range s.NodeIDs {
		if len(id) > 0 {
			switch rapid.IntRange(0, 4).Draw(t, "otherkind") {
			case 0:
				s.Others = append(s.Others, id[:len(id)-1])
			case 1:
				s.Others = append(s.Others, id+"x")
			case 2:
				s.Others = append(s.Others, strings.ToUpper(id))
			case 3:
				s.Others = append(s.Others, id+id)
			case 4:
				s.Others = append(s.Others, " "+id)
			}
		}
	}
	return s
}

const c20IssueRule = "certificate requests for 0-7 node IDs (byte lengths biased to 0-1, 1-20, 100-135, 200-300, ~1000; ASCII or mixed UTF-8 incl. 4-byte runes; duplicates), " +
	"0-4 DNS names, 0-3 IPv4/IPv6 addresses, existing or new key, direct API or MakeReq/SignReq through PEM files, validity windows around/before/after now; " +
	"oracle = round trip (request names, certificate names, validity, signature by the CA) + ReceptorVerifyFunc accepts each requested ID and refuses neighbouring IDs; " +
	"non-trivial = an ID >= 113 bytes or non-ASCII, or >= 3 IDs with a duplicate; distinct by canonical JSON"

func TestC20Issue(t *testing.T) {
	st := vx.NewStats("C20", "issue", c20IssueRule)
	defer st.Flush()
	r := &vx.Runner{Name: "C20.issue", InProc: true}
	rapid.Check(t, func(t *rapid.T) {
		s := genC20(t)
		st.Judge(t, s, r.Run(s))
	})
}

func genDerItem() *rapid.Generator[DerItem] {
	return rapid.Custom(func(t *rapid.T) DerItem {
		switch rapid.IntRange(0, 9).Draw(t, "kind") {
		case 0:
			return DerItem{Kind: "dns", Val: genHost().Draw(t, "h")}
		case 1:
			return DerItem{Kind: "ip", Val: genIP().Draw(t, "ip")}
		case 2:
			return DerItem{Kind: "rid"}
		}
		it := DerItem{Kind: "on", OID: "receptor", StrTag: 12, Class: 2, Val: rapid.OneOf(
			rapid.StringMatching(`[a-z0-9 .-]{0,12}`), genNodeID()).Draw(t, "val")}
		if len(it.Val) > 600 {
			it.Val = it.Val[:600]
			for !validUTF8(it.Val) {
				it.Val = it.Val[:len(it.Val)-1]
			}
		}
		// deviations from the standard shape, each drawn independently and rarely
		if rapid.IntRange(0, 4).Draw(t, "oidk") == 0 {
			it.OID = rapid.SampledFrom([]string{"other", "prefix", "longer"}).Draw(t, "oid")
		}
		if rapid.IntRange(0, 4).Draw(t, "stk") == 0 {
			it.StrTag = rapid.SampledFrom([]int{19, 22, 2, 4, 5, 16, 12}).Draw(t, "st")
		}
		if rapid.IntRange(0, 9).Draw(t, "clk") == 0 {
			it.Class = rapid.SampledFrom([]int{0, 1, 3}).Draw(t, "cl")
		}
		if rapid.IntRange(0, 14).Draw(t, "primk") == 0 {
			it.Prim = true
		}
		if rapid.IntRange(0, 9).Draw(t, "itk") == 0 {
			it.InTag = rapid.IntRange(1, 3).Draw(t, "it")
		}
		if rapid.IntRange(0, 14).Draw(t, "ipk") == 0 {
			it.InPrim = true
		}
		if rapid.IntRange(0, 9).Draw(t, "llk") == 0 {
			it.LongLen = true
		}
		if rapid.IntRange(0, 9).Draw(t, "trk") == 0 {
			it.Trail = rapid.SampledFrom([]string{"\x00", "\x0c\x01x", "\x05\x00", "x"}).Draw(t, "tr")
		}
		if rapid.IntRange(0, 11).Draw(t, "nvk") == 0 {
			it.NoValue, it.Val = true, ""
		}
		return it
	})
}

func validUTF8(s string) bool { return strings.ToValidUTF8(s, "") == s }

const c20DerRule = "subjectAltName extensions built from a DER grammar (dNSName, iPAddress, registeredID, otherName with the receptor OID / another / a prefix / an extension of it, " +
	"inner value UTF8/Printable/IA5/INTEGER/OCTET STRING/NULL/SEQUENCE, wrong classes, primitive flags, other explicit tag numbers, non-minimal lengths, trailing bytes, missing value element) and 0-4 byte mutations of them; " +
	"oracle: unmutated = by-construction classification of each item (must be returned / must not contribute / lenient); mutated = strict independent DER reader, compared only when it accepts the bytes; " +
	"non-trivial = >= 2 items with a well-formed receptor name (unmutated) or a mutated extension the strict reader accepts with >= 1 name; distinct by canonical JSON"

func TestC20Der(t *testing.T) {
	st := vx.NewStats("C20", "der", c20DerRule)
	defer st.Flush()
	r := &vx.Runner{Name: "C20.der", InProc: true}
	rapid.Check(t, func(t *rapid.T) {
		s := genC20Der(t)
		st.Judge(t, s, r.Run(s))
	})
}

func genC20Der(t *rapid.T) C20Der {
	s := C20Der{Items: rapid.SliceOfN(genDerItem(), 0, 6).Draw(t, "items")}
	if rapid.IntRange(0, 2).Draw(t, "mutate") == 0 {
		n := rapid.IntRange(1, 4).Draw(t, "nmut")
		for i := 0; i < n; i++ {
			s.Muts = append(s.Muts, DerMut{Pos: rapid.IntRange(0, 4000).Draw(t, "pos"), Op: rapid.IntRange(0, 4).Draw(t, "op"), B: rapid.Byte().Draw(t, "b")})
		}
	}
	return s
}
