package netprops

import (
	"testing"
	"time"

	"pgregory.net/rapid"

	"verifharness/vx"
)

func genC11(t *rapid.T) C11Scn {
	s := C11Scn{Default4: rapid.SampledFrom([]int{4, 4, 2, 6}).Draw(t, "default4")}
	if rapid.Bool().Draw(t, "hasallow") {
		s.HasAllow = true
		s.Allow = rapid.SliceOfN(rapid.SampledFrom([]int{0, 0, 1, 2, 5}), 0, 3).Draw(t, "allow")
	}
	if rapid.Bool().Draw(t, "hasoverride") {
		s.Override = map[int]int{rapid.IntRange(0, 2).Draw(t, "ovid"): rapid.SampledFrom([]int{1, 2, 8}).Draw(t, "ovcost")}
	}
	n := rapid.IntRange(1, 14).Draw(t, "nsteps")
	for i := 0; i < n; i++ {
		st := C11Step{K: rapid.SampledFrom([]string{"open", "hello", "hello", "hello", "update", "update", "update", "foreign", "data", "close", "race"}).Draw(t, "k"),
			S: rapid.IntRange(0, 4).Draw(t, "s"), ID: rapid.SampledFrom([]int{0, 0, 0, 1, 1, 2, 3, 4, 5}).Draw(t, "id")}
		if st.K == "update" || st.K == "hello" {
			// mostly the cost that is actually configured for that ID, sometimes another / none
			switch rapid.IntRange(0, 5).Draw(t, "costkind") {
			case 0:
				st.Cost4 = 0
			case 1:
				st.Cost4 = rapid.SampledFrom([]int{1, 2, 3, 4, 6, 8}).Draw(t, "othercost")
			default:
				st.Cost4 = -1 // resolved below: the agreed cost
			}
		}
		if st.K == "race" {
			st.Cost4 = rapid.IntRange(0, 14).Draw(t, "racers")
			st.Fwd = rapid.IntRange(0, 5).Draw(t, "rounds")
		}
		if (st.K == "update" || st.K == "foreign") && rapid.IntRange(0, 5).Draw(t, "fwdodd") == 0 {
			st.Fwd = rapid.IntRange(1, len(c11Pool)).Draw(t, "fwd")
		}
		s.Steps = append(s.Steps, st)
	}
	// resolve "agreed cost" placeholders: the executor cannot know which ID a session will have, so use the default or
	// the override of the drawn ID
	for i := range s.Steps {
		if s.Steps[i].Cost4 == -1 {
			s.Steps[i].Cost4 = s.Default4
			if c, ok := s.Override[s.Steps[i].ID]; ok {
				s.Steps[i].Cost4 = c
			}
		}
	}
	return s
}

func TestC11(t *testing.T) {
	st := vx.NewStats("C11", "admission", "one real node with a backend policy (allow-list none/list, default cost, per-node override) and up to 5 scripted sessions; 1-14 steps from "+
		"{open, handshake announcing an ID from {three names, a case variant, empty, the node's own}, own update listing the node with the agreed / another / no cost, update with a changed "+
		"ForwardingNode, relayed foreign update, data packet, session end, two sessions racing the same ID}; reference predicate admissible = id non-empty, not own, allowed, not connected; "+
		"after every step Connections / costs / own adjacency / routing table are compared with the model; non-trivial = a refusal, a post-establishment disconnect or a race; distinct by canonical JSON")
	defer st.Flush()
	r := &vx.Runner{Name: "C11", Timeout: 200 * time.Second, Recycle: 100}
	defer r.Close()
	rapid.Check(t, func(t *rapid.T) {
		s := genC11(t)
		st.Judge(t, s, r.Run(s))
	})
}

func TestC11Twin(t *testing.T) {
	st := vx.NewStats("C11", "twin", "real chain of 2-4 nodes; after convergence a second node reusing one node's ID is started >= 1.2 s later and attached to another node; "+
		"oracle: the later one shuts itself down, the earlier one keeps running and pings / is pinged by everyone; every case is non-trivial; distinct by canonical JSON")
	defer st.Flush()
	r := &vx.Runner{Name: "C11.twin", Timeout: 200 * time.Second, Recycle: 20}
	defer r.Close()
	rapid.Check(t, func(t *rapid.T) {
		s := C11Twin{N: rapid.SampledFrom([]int{2, 3, 3, 4, 4, 4}).Draw(t, "n"), Victim: rapid.IntRange(0, 3).Draw(t, "victim"), AttachTo: rapid.IntRange(0, 3).Draw(t, "attach"),
			DelayMs: rapid.SampledFrom([]int{0, 0, 300, 900}).Draw(t, "delay")}
		if s.N >= 3 && rapid.IntRange(0, 3).Draw(t, "far") > 0 {
			// mostly attach away from the original's neighbours so that the later node really joins the mesh
			s.Victim = rapid.SampledFrom([]int{0, s.N - 1}).Draw(t, "endvictim")
			if s.Victim == 0 {
				s.AttachTo = rapid.IntRange(2, s.N-1).Draw(t, "farattach")
			} else {
				s.AttachTo = rapid.IntRange(0, s.N-3).Draw(t, "farattach2")
			}
		}
		st.Judge(t, s, r.Run(s))
	})
}
