package netprops

import "math/big"

type bigInt = big.Int

func bigFrom(i int64) *big.Int { return big.NewInt(i) }
