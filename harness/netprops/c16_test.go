package netprops

import (
	"testing"
	"time"

	"pgregory.net/rapid"

	"verifharness/vx"
)

func genC16(t *rapid.T) C16Scn {
	s := C16Scn{N: rapid.IntRange(2, 4).Draw(t, "n"), ExtraHop: rapid.SampledFrom([]int{0, 0, 1, 27}).Draw(t, "extra"),
		Socks: rapid.IntRange(1, 5).Draw(t, "socks"), SlowUs: rapid.SampledFrom([]int{0, 0, 2000, 50000}).Draw(t, "slow")}
	ns := rapid.IntRange(1, 6).Draw(t, "nsends")
	for i := 0; i < ns; i++ {
		sd := C16Send{Sock: rapid.IntRange(0, 4).Draw(t, "sock"), Target: rapid.SampledFrom([]int{0, 1, 1, 2, 3}).Draw(t, "target"),
			Case:  rapid.SampledFrom([]string{"unbound", "unbound", "unbound", "closed", "racing", "dropped", "bound"}).Draw(t, "case"),
			Burst: rapid.SampledFrom([]int{1, 1, 2, 3, 5, 6}).Draw(t, "burst"), Budget: rapid.SampledFrom([]int{0, 0, 1, 2}).Draw(t, "budget")}
		if sd.Case == "racing" {
			sd.RaceUs = rapid.SampledFrom([]int{0, 50, 300, 2000, 20000}).Draw(t, "race")
		}
		s.Sends = append(s.Sends, sd)
	}
	nd := rapid.IntRange(0, 2).Draw(t, "ndials")
	for i := 0; i < nd; i++ {
		s.Dials = append(s.Dials, C16Dial{Target: rapid.IntRange(0, 3).Draw(t, "dtarget"), Case: rapid.SampledFrom([]string{"unbound", "unbound", "unbound", "dropped"}).Draw(t, "dcase")})
	}
	return s
}

func TestC16(t *testing.T) {
	st := vx.NewStats("C16", "notices", "real chains of 2-4 nodes whose hop limit is the diameter + {0,1,27}; the first node has 1-5 sockets (the first three named alike but for letter case) subscribed to unreachable notices (consumer optionally slow); "+
		"1-6 sends {socket, target node incl. own, service unbound / bound-then-closed / closed around the send / silently dropped by policy / bound, burst of 1-6 datagrams, hop budget default or route length + {0,1}}, "+
		"0-2 stream dials to an unbound or silently dropped service; oracle: exactly the sending socket receives one well-formed 'service unknown' notice per datagram to an unbound service (same node: synchronous error), "+
		"nothing for dropped or bound ones, no other socket receives anything; dial to unbound fails in < 10 s, dial to dropped ends by its own 3 s deadline; non-trivial = >= 2 sockets and a remote unbound target, or a dial")
	defer st.Flush()
	r := &vx.Runner{Name: "C16", Timeout: 240 * time.Second, Recycle: 40}
	defer r.Close()
	rapid.Check(t, func(t *rapid.T) {
		s := genC16(t)
		st.Judge(t, s, r.Run(s))
	})
}
