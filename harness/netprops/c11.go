package netprops

import (
	"encoding/json"
	"fmt"
	"sort"
	"sync"
	"time"

	"github.com/ansible/receptor/pkg/netceptor"

	"verifharness/vx"
)

// ---- scenario ----------------------------------------------------------------------------------------

var c11Pool = []string{"h1", "h2", "h3", "", "sut", "H1"}

type C11Step struct {
	K     string `json:"k"`             // open | hello | update | foreign | data | close | race
	S     int    `json:"s,omitempty"`   // session index (mod number of sessions ever opened)
	ID    int    `json:"id,omitempty"`  // index into the ID pool
	Cost4 int    `json:"c,omitempty"`   // update: cost listed for the node, in quarters (0 = the node is not listed)
	Fwd   int    `json:"fwd,omitempty"` // update/foreign: 0 = ForwardingNode is the session's own ID; k>0 = pool[k-1]
}

type C11Scn struct {
	Allow    []int       `json:"allow"` // nil = no allow-list; else indices into the pool
	HasAllow bool        `json:"hasallow"`
	Default4 int         `json:"default4"`           // backend default cost in quarters (>=1)
	Override map[int]int `json:"override,omitempty"` // pool index -> cost quarters
	Steps    []C11Step   `json:"steps"`
}

type c11Sess struct {
	pair *vx.SessionPair
	mu   sync.Mutex
	recv [][]byte
	// model
	state       string // new | established | closed
	id          string
	remoteEstab bool
	seq         uint64
	opened      time.Time
}

func (c *c11Sess) reader() {
	for {
		b, err := c.pair.B.Recv(500 * time.Millisecond)
		if err == netceptor.ErrTimeout {
			continue
		}
		if err != nil {
			return
		}
		c.mu.Lock()
		c.recv = append(c.recv, b)
		c.mu.Unlock()
	}
}

func (c *c11Sess) rejected() bool {
	c.mu.Lock()
	defer c.mu.Unlock()
	for _, r := range c.recv {
		if len(r) > 0 && r[0] == netceptor.MsgTypeReject {
			return true
		}
	}
	return false
}

func (c *c11Sess) closedBySUT() bool {
	select {
	case <-c.pair.Done():
		return true
	default:
		return false
	}
}

func execC11(b []byte) vx.Verdict {
	var s C11Scn
	if err := json.Unmarshal(b, &s); err != nil {
		return vx.Inconclusive("bad scenario: %v", err)
	}
	if s.Default4 < 1 {
		s.Default4 = 4
	}
	opts := vx.NodeOpts{RouteUpdate: time.Hour, ServiceAd: 0, MaxIdle: time.Hour, MaxHops: 30}
	sut := vx.NewSUT(sutID, opts)
	defer sut.Close()
	echo, err := sut.N.ListenPacket("echo")
	if err != nil {
		return vx.Inconclusive("listen: %v", err)
	}
	var gotMu sync.Mutex
	got := map[string]int{}
	go func() {
		buf := make([]byte, 65536)
		for {
			n, _, err := echo.ReadFrom(buf)
			if err != nil {
				return
			}
			gotMu.Lock()
			got[string(buf[:n])]++
			gotMu.Unlock()
		}
	}()
	// backend policy
	var allow map[string]bool
	mods := []func(*netceptor.BackendInfo){netceptor.BackendConnectionCost(float64(s.Default4) * 0.25)}
	if s.HasAllow {
		allow = map[string]bool{}
		list := []string{}
		for _, i := range s.Allow {
			id := c11Pool[i%len(c11Pool)]
			if !allow[id] {
				allow[id] = true
				list = append(list, id)
			}
		}
		mods = append(mods, netceptor.BackendAllowedPeers(list))
	}
	over := map[string]float64{}
	for i, c := range s.Override {
		if c >= 1 {
			over[c11Pool[i%len(c11Pool)]] = float64(c) * 0.25
		}
	}
	if len(over) > 0 {
		mods = append(mods, netceptor.BackendNodeCost(over))
	}
	eff := func(id string) float64 {
		if c, ok := over[id]; ok {
			return c
		}
		return float64(s.Default4) * 0.25
	}
	be := vx.NewMemBackend()
	if err := sut.N.AddBackend(be, mods...); err != nil {
		return vx.Inconclusive("add backend: %v", err)
	}
	// a second, policy-free backend with one well-behaved scripted peer "g" whose name the node knows (source of data packets)
	good := sut.AddPeer("g", vx.LinkSpec{Ordered: true}, netceptor.BackendConnectionCost(1))
	_ = good.Hello(5<<24, 1, map[string]float64{sutID: 1})
	if !good.WaitConnected(20 * time.Second) {
		return vx.Inconclusive("good peer not established")
	}
	_ = good.Hello(5<<24, 2, map[string]float64{sutID: 1})

	var sessions []*c11Sess
	connected := map[string]*c11Sess{} // model: id -> session
	var openSpec = vx.LinkSpec{Ordered: true}
	open := func() *c11Sess {
		p := vx.NewSessionPair(openSpec, nil)
		c := &c11Sess{pair: p, state: "new", opened: time.Now()}
		go c.reader()
		if !be.Offer(p.A, 5*time.Second) {
			return nil
		}
		sessions = append(sessions, c)
		return c
	}
	admissible := func(id string) (bool, string) {
		switch {
		case id == "":
			return false, "empty-id"
		case id == sutID:
			return false, "own-id"
		case allow != nil && !allow[id]:
			return false, "not-allowed"
		case connected[id] != nil:
			return false, "already-connected"
		}
		return true, ""
	}
	labels := []string{}
	nontrivial := false
	dataSent := map[string]bool{} // payload -> must be delivered?
	dataN := 0

	hello := func(c *c11Sess, id string) []byte {
		c.seq++
		return vx.EncodeRoute(&vx.RoutingUpdate{NodeID: id, UpdateID: fmt.Sprintf("hs-%p-%d", c, c.seq), UpdateEpoch: 9 << 24, UpdateSequence: c.seq,
			Connections: map[string]float64{}, ForwardingNode: id})
	}
	// expectation helpers --------------------------------------------------------------------------
	expectRejected := func(c *c11Sess, why string, step int) *vx.Verdict {
		msg := vx.WaitFor(20*time.Second, 5*time.Millisecond, func() string {
			if !c.closedBySUT() {
				return "session still open"
			}
			return ""
		})
		if msg != "" {
			v := vx.Violation("inadmissible-rejected", "C11/not-rejected:"+why, "step %d: a session that is inadmissible (%s, announced %q) was not closed within 20 s; connections %v", step, why, c.id, connList(sut.N))
			return &v
		}
		// the reject message is sent before closing; on an ordered link it must have arrived
		if vx.WaitFor(150*time.Millisecond, 5*time.Millisecond, func() string {
			if c.rejected() {
				return ""
			}
			return "no reject"
		}) != "" {
			labels = append(labels, "closed-without-reject-message")
		}
		c.state = "closed"
		return nil
	}
	checkPicture := func(step int) *vx.Verdict {
		want := map[string]float64{"g": 1}
		for id := range connected {
			want[id] = eff(id)
		}
		msg := vx.WaitFor(20*time.Second, 10*time.Millisecond, func() string {
			var st netceptor.Status
			if !vx.WithDeadline(5*time.Second, func() { st = sut.N.Status() }) {
				return "Status blocked"
			}
			have := map[string]float64{}
			for _, c := range st.Connections {
				have[c.NodeID] = c.Cost
			}
			for id, c := range want {
				if hc, ok := have[id]; !ok {
					return fmt.Sprintf("admissible peer %q is not an established connection (have %v)", id, have)
				} else if hc != c {
					return fmt.Sprintf("connection %q has cost %v, configured %v", id, hc, c)
				}
			}
			for id := range have {
				if _, ok := want[id]; !ok {
					return fmt.Sprintf("connection %q exists although no admissible session for it is open (have %v want %v)", id, have, want)
				}
			}
			own := st.KnownConnectionCosts[sutID]
			for id := range own {
				if _, ok := want[id]; !ok {
					return fmt.Sprintf("the node still lists an edge to %q in its own adjacency %v", id, own)
				}
			}
			for id := range want {
				if _, ok := own[id]; !ok {
					return fmt.Sprintf("the node's own adjacency %v lacks established peer %q", own, id)
				}
			}
			for other, row := range st.KnownConnectionCosts {
				if _, ok := want[other]; !ok && other != sutID {
					if _, has := row[sutID]; has {
						return fmt.Sprintf("a route through %q is left behind: its row %v still lists the node", other, row)
					}
				}
			}
			for dst, hop := range st.RoutingTable {
				if _, ok := want[hop]; !ok {
					return fmt.Sprintf("routing table sends %q via %q which is not an established connection", dst, hop)
				}
			}
			return ""
		})
		if msg != "" {
			sig := "C11/picture"
			switch {
			case contains(msg, "exists although"):
				sig = "C11/stale-or-inadmissible-connection"
			case contains(msg, "not an established connection (have"):
				sig = "C11/admissible-not-connected"
			case contains(msg, "left behind"), contains(msg, "still lists an edge"), contains(msg, "routing table sends"):
				sig = "C11/route-left-behind"
			case contains(msg, "has cost"):
				sig = "C11/wrong-cost"
			}
			v := vx.Violation("connections-match-admission", sig, "after step %d (%s): %s", step, stepString(s.Steps, step), msg)
			return &v
		}
		return nil
	}
	handshake := func(c *c11Sess, id string, step int) *vx.Verdict {
		ok, why := admissible(id)
		vx.Debugf("step %d handshake id=%q admissible=%v closedBySUT=%v state=%s", step, id, ok, c.closedBySUT(), c.state)
		c.id = id
		_ = c.pair.B.Send(hello(c, id))
		if ok {
			c.state = "established"
			connected[id] = c
			labels = append(labels, "admitted")
			return nil
		}
		labels = append(labels, "refused:"+why)
		// is this clause the only false one?
		nontrivial = true
		return expectRejected(c, why, step)
	}

	raceOnce := func(k int, pid string, i int) *vx.Verdict {
		var racers []*c11Sess
		openSpec = vx.LinkSpec{Ordered: false} // fewer hand-offs between the harness and the node: tighter simultaneity
		defer func() { openSpec = vx.LinkSpec{Ordered: true} }()
		for j := 0; j < k; j++ {
			c := open()
			if c == nil {
				{
					v := vx.Inconclusive("backend refused session")
					return &v
				}
			}
			c.id = pid
			racers = append(racers, c)
		}
		ok, why := admissible(pid)
		start := make(chan struct{})
		var wg sync.WaitGroup
		for _, c := range racers {
			wg.Add(1)
			h := hello(c, pid)
			go func(c *c11Sess, h []byte) { defer wg.Done(); <-start; _ = c.pair.B.Send(h) }(c, h)
		}
		close(start)
		wg.Wait()
		labels = append(labels, fmt.Sprintf("race-of-%d", k))
		nontrivial = true
		if !ok {
			for _, c := range racers {
				if v := expectRejected(c, why, i); v != nil {
					return v
				}
			}
			return nil
		}
		// exactly one of the racers is established, the others are rejected
		open := func() []*c11Sess {
			var o []*c11Sess
			for _, c := range racers {
				if !c.closedBySUT() {
					o = append(o, c)
				}
			}
			return o
		}
		msg := vx.WaitFor(20*time.Second, 5*time.Millisecond, func() string {
			if n := len(open()); n != 1 {
				return fmt.Sprintf("%d of %d simultaneous sessions are still open", n, k)
			}
			return ""
		})
		if msg != "" {
			{
				v := vx.Violation("one-per-id", "C11/twins", "step %d: %d simultaneous sessions announcing %q: %s (exactly one must survive, the others must be rejected)", i, k, pid, msg)
				// more than one survivor 20 s after the handshakes, confirmed once more after a pause, is a fact about the
				// node's state, not a deadline artefact
				time.Sleep(2 * time.Second)
				v.Certain = len(open()) > 1
				return &v
			}
		}
		time.Sleep(20 * time.Millisecond)
		if n := len(open()); n != 1 {
			{
				v := vx.Violation("one-per-id", "C11/twins", "step %d: %d sessions announcing %q open after settling", i, n, pid)
				return &v
			}
		}
		for _, c := range racers {
			c.state = "closed"
		}
		win := open()[0]
		win.state = "established"
		connected[pid] = win
		return nil
	}

	for i, st := range s.Steps {
		if len(sessions) == 0 && st.K != "open" && st.K != "race" {
			if open() == nil {
				return vx.Inconclusive("backend refused session")
			}
		}
		// a session that has not completed a handshake is given up by the node after ten one-second hello attempts; the
		// harness retires such sessions itself well before that (8 s) so that the model never races with the give-up timer
		for _, x := range sessions {
			if x.state == "new" && time.Since(x.opened) > 8*time.Second {
				x.pair.Cut()
				x.state = "closed"
			}
		}
		var c *c11Sess
		if len(sessions) > 0 {
			c = sessions[st.S%len(sessions)]
		}
		pid := c11Pool[st.ID%len(c11Pool)]
		switch st.K {
		case "open":
			if len(sessions) < 5 {
				if open() == nil {
					return vx.Inconclusive("backend refused session")
				}
			}
		case "hello":
			if c.state == "closed" {
				continue
			}
			if c.state == "new" {
				if v := handshake(c, pid, i); v != nil {
					return *v
				}
				break
			}
			fallthrough
		case "update", "foreign":
			if c.state == "closed" {
				continue
			}
			if c.state == "new" {
				if v := handshake(c, pid, i); v != nil {
					return *v
				}
				break
			}
			fwd := c.id
			if st.Fwd > 0 {
				fwd = c11Pool[(st.Fwd-1)%len(c11Pool)]
			}
			c.seq++
			u := vx.RoutingUpdate{NodeID: c.id, UpdateID: fmt.Sprintf("u-%d", i), UpdateEpoch: 9 << 24, UpdateSequence: c.seq, ForwardingNode: fwd,
				Connections: map[string]float64{"x": 1}}
			if st.K == "foreign" {
				u.NodeID, u.UpdateEpoch = "r1", 3<<24
			} else if st.Cost4 > 0 {
				u.Connections[sutID] = float64(st.Cost4) * 0.25
			}
			_ = c.pair.B.Send(vx.EncodeRoute(&u))
			why := ""
			switch {
			case fwd != c.id:
				why = "identity-changed"
			case st.K == "foreign":
			case st.Cost4 == 0 && c.remoteEstab:
				why = "no-longer-lists-us"
			case st.Cost4 == 0:
				labels = append(labels, "late-init-update-ignored")
			case float64(st.Cost4)*0.25 != eff(c.id):
				why = "cost-disagreement"
			default:
				c.remoteEstab = true
				labels = append(labels, "cost-agreed")
			}
			if why != "" {
				labels = append(labels, "disconnected:"+why)
				nontrivial = true
				delete(connected, c.id)
				if v := expectRejected(c, why, i); v != nil {
					return *v
				}
			}
		case "data":
			if c.state == "closed" {
				continue
			}
			dataN++
			payload := fmt.Sprintf("data-%d", dataN)
			_ = c.pair.B.Send(vx.EncodeData("g", "src", sutID, "echo", 10, []byte(payload)))
			dataSent[payload] = c.state == "established"
			if c.state == "new" {
				labels = append(labels, "data-before-handshake")
			}
		case "close":
			if c.state == "closed" {
				continue
			}
			c.pair.Cut()
			if c.state == "established" {
				delete(connected, c.id)
				labels = append(labels, "session-ended")
			}
			c.state = "closed"
		case "race":
			if len(sessions) > 200 {
				continue
			}
			k := 2 + st.Cost4%15 // 2..16 simultaneous sessions announcing the same ID
			rounds := 1 + st.Fwd%6
			for round := 0; round < rounds; round++ {
				if round > 0 {
					// retire the previous winner and wait until the node has forgotten it, then race again
					if w := connected[pid]; w != nil {
						w.pair.Cut()
						w.state = "closed"
						delete(connected, pid)
						if v := checkPicture(i); v != nil {
							return *v
						}
					}
				}
				if v := raceOnce(k, pid, i); v != nil {
					return *v
				}
			}
		}
		if v := checkPicture(i); v != nil {
			return *v
		}
	}
	// data delivery: packets on established sessions arrive, packets on not-yet-admitted sessions never do
	for p, must := range dataSent {
		p, must := p, must
		if must {
			if vx.WaitFor(20*time.Second, 10*time.Millisecond, func() string {
				gotMu.Lock()
				defer gotMu.Unlock()
				if got[p] > 0 {
					return ""
				}
				return "missing"
			}) != "" {
				// the session may have been closed right after the packet was sent; only sessions still established count
				labels = append(labels, "data-on-established-session-not-seen")
			}
		}
	}
	time.Sleep(100 * time.Millisecond)
	gotMu.Lock()
	for p, must := range dataSent {
		if !must && got[p] > 0 {
			gotMu.Unlock()
			return vx.Violation("no-traffic-before-admission", "C11/data-before-admission", "data packet %q sent on a session that never completed a handshake was delivered", p)
		}
	}
	gotMu.Unlock()
	return vx.OK(nontrivial, dedup(labels)...)
}

func connList(n *netceptor.Netceptor) []string {
	var out []string
	for _, c := range n.Status().Connections {
		out = append(out, fmt.Sprintf("%q(%v)", c.NodeID, c.Cost))
	}
	sort.Strings(out)
	return out
}

func contains(s, sub string) bool { return stringsIndexOf(s, sub) >= 0 }

func stringsIndexOf(a, b string) int {
	for i := 0; i+len(b) <= len(a); i++ {
		if a[i:i+len(b)] == b {
			return i
		}
	}
	return -1
}

func stepString(steps []C11Step, upto int) string {
	if upto >= len(steps) {
		upto = len(steps) - 1
	}
	b, _ := json.Marshal(steps[:upto+1])
	return string(b)
}

// ---- same-ID nodes on a real mesh ---------------------------------------------------------------------

type C11Twin struct {
	N        int `json:"n"`        // chain length of the original mesh (2..4): n0 - n1 - ...
	Victim   int `json:"victim"`   // which node's ID the later node reuses
	AttachTo int `json:"attach"`   // node the later twin attaches to (never the victim itself: own ID is refused at once)
	DelayMs  int `json:"delay_ms"` // extra delay beyond the 1.2 s epoch granularity
}

func execC11Twin(b []byte) vx.Verdict {
	var s C11Twin
	if err := json.Unmarshal(b, &s); err != nil {
		return vx.Inconclusive("bad scenario: %v", err)
	}
	if s.N < 2 {
		s.N = 2
	}
	opts := vx.DefaultNodeOpts()
	m := vx.NewMesh(opts)
	defer m.Close()
	names := make([]string, s.N)
	for i := range names {
		names[i] = nodeName(i)
		m.StartNode(names[i])
	}
	for i := 0; i+1 < s.N; i++ {
		m.AddLink(&vx.Link{A: names[i], B: names[i+1], CostA: 1, CostB: 1, Spec: vx.LinkSpec{Ordered: true}})
	}
	victim := names[s.Victim%s.N]
	attach := names[s.AttachTo%s.N]
	if attach == victim {
		attach = names[(s.AttachTo+1)%s.N]
	}
	full := func() string {
		for _, a := range names {
			rt := m.Node(a).N.Status().RoutingTable
			for _, c := range names {
				if a != c && rt[c] == "" {
					return a + " has no route to " + c
				}
			}
		}
		return ""
	}
	if msg := vx.WaitFor(30*time.Second, 30*time.Millisecond, full); msg != "" {
		return vx.Inconclusive("mesh did not converge: %s", msg)
	}
	time.Sleep(1200*time.Millisecond + time.Duration(s.DelayMs)*time.Millisecond)
	// the later twin: a separate node object with the same ID, attached by its own link
	first := m.Node(victim).N
	opts2 := opts
	twinMesh := vx.NewMesh(opts2)
	defer twinMesh.Close()
	twin := twinMesh.StartNode(victim)
	// cross-mesh link: one end on the twin, the other on the attach node (handled by hand)
	beT, beA := vx.NewMemBackend(), vx.NewMemBackend()
	_ = twin.N.AddBackend(beT, netceptor.BackendConnectionCost(1))
	_ = m.Node(attach).N.AddBackend(beA, netceptor.BackendConnectionCost(1))
	stop := make(chan struct{})
	defer close(stop)
	go func() {
		for {
			p := vx.NewSessionPair(vx.LinkSpec{Ordered: true}, nil)
			if !beT.Offer(p.A, 2*time.Second) || !beA.Offer(p.B, 2*time.Second) {
				p.Cut()
			}
			select {
			case <-p.Done():
			case <-stop:
				p.Cut()
				return
			}
			select {
			case <-stop:
				return
			case <-time.After(100 * time.Millisecond):
			}
		}
	}()
	adjacent := false
	vi, ai := 0, 0
	for i, n := range names {
		if n == victim {
			vi = i
		}
		if n == attach {
			ai = i
		}
	}
	if vi-ai == 1 || ai-vi == 1 {
		adjacent = true
	}
	deadline := 40*opts.RouteUpdate + 20*time.Second
	if adjacent {
		// the attach node is already connected to the earlier node under that ID, so the later one is refused as a
		// connection ("not already connected") and never joins the mesh: nothing tells it about its twin. The statement's
		// shut-down clause is about two nodes that are both part of the mesh; here only "the earlier one keeps working" is asserted.
		select {
		case <-first.NetceptorDone():
			return vx.Violation("later-twin-yields", "C11/earlier-twin-shut-down", "the EARLIER node %s shut itself down", victim)
		case <-twin.N.NetceptorDone():
		case <-time.After(3 * time.Second):
		}
		for _, other := range names {
			if other != victim {
				if msg := pingUntil(first, other, 30*time.Second); msg != "" {
					return vx.Violation("earlier-twin-works", "C11/earlier-twin-broken", "with a refused duplicate knocking at %s the earlier node %s cannot ping %s: %s", attach, victim, other, msg)
				}
			}
		}
		v := vx.OK(false, fmt.Sprintf("chain=%d", s.N), "twin-attached-next-to-original(refused)")
		v.Unconstrained = 1
		return v
	}
	select {
	case <-twin.N.NetceptorDone():
	case <-first.NetceptorDone():
		return vx.Violation("later-twin-yields", "C11/earlier-twin-shut-down", "the EARLIER node %s shut itself down after a later node with the same ID attached to %s", victim, attach)
	case <-time.After(deadline):
		return vx.Violation("later-twin-yields", "C11/twin-not-shut-down", "a later node with ID %s attached to %s did not shut itself down within %v", victim, attach, deadline)
	}
	// the earlier one keeps working
	select {
	case <-first.NetceptorDone():
		return vx.Violation("later-twin-yields", "C11/earlier-twin-shut-down", "the earlier node %s shut down as well", victim)
	case <-time.After(500 * time.Millisecond):
	}
	for _, other := range names {
		if other == victim {
			continue
		}
		if msg := pingUntil(first, other, 30*time.Second); msg != "" {
			return vx.Violation("earlier-twin-works", "C11/earlier-twin-broken", "after the duplicate went away the earlier node %s cannot ping %s: %s", victim, other, msg)
		}
		if msg := pingUntil(m.Node(other).N, victim, 30*time.Second); msg != "" {
			return vx.Violation("earlier-twin-works", "C11/earlier-twin-broken", "after the duplicate went away %s cannot ping the earlier node %s: %s", other, victim, msg)
		}
	}
	return vx.OK(true, fmt.Sprintf("chain=%d", s.N), "twin-shut-down")
}

func init() {
	vx.Register("C11", execC11)
	vx.Register("C11.twin", execC11Twin)
}
