package netprops

import (
	"encoding/json"
	"fmt"
	"reflect"
	"time"

	"github.com/ansible/receptor/pkg/netceptor"

	"verifharness/vx"
)

// ---- scenario ----------------------------------------------------------------------------------------

type C06Delivery struct {
	Link    int   `json:"link"`           // which peer session delivers it (mod number of peers)
	Origin  int   `json:"origin"`         // index into the origin pool {r1 r2 r3 p0.. sut}
	Epoch   int   `json:"epoch"`          // 0..2 -> e0<e1<e2 ; for origin sut: 0 = own epoch, 1 = older, 2 = newer
	Seq     int   `json:"seq"`            // 0..5 (bursts: 10 and up)
	Adj     int   `json:"adj"`            // adjacency pool index
	Replay  int   `json:"replay"`         // -1 fresh update; k>=0: re-deliver the update of delivery (k mod i) verbatim (same UpdateID)
	Suspect int   `json:"suspect"`        // 0 none; 1..3 = SuspectedDuplicate e0..e2
	Also    []int `json:"also,omitempty"` // further links that deliver the very same update at the same moment (remote origins only)
}

// c06Seq: 0..5 as drawn; greater values are taken as they are (runs of rising sequence numbers)
func c06Seq(n int) uint64 {
	if n < 0 {
		n = -n
	}
	if n < 6 {
		return uint64(n)
	}
	return uint64(n)
}

type C06Scn struct {
	NPeers     int           `json:"npeers"`
	Deliveries []C06Delivery `json:"deliveries"`
}

const sutID = "sut"

var c06Epochs = []uint64{1000 << 24, 2000 << 24, 3000 << 24}

func c06Adj(i int, origin string) map[string]float64 {
	pool := []map[string]float64{
		{},
		{"r1": 1},
		{"r1": 1, "r2": 2},
		{"p0": 1, "r2": 1},
		{"sut": 1, "r3": 0.5},
		{"r2": 1, "r3": 1, "p1": 3},
		{"p0": 2, "p1": 2, "r1": 0.25},
	}
	m := map[string]float64{}
	for k, v := range pool[i%len(pool)] {
		if k != origin {
			m[k] = v
		}
	}
	return m
}

type c06Model struct {
	newest map[string][2]uint64 // origin -> (epoch, seq) newest accepted
	known  map[string]bool
	seen   map[string]bool // update IDs processed
}

func cloneKCC(m map[string]map[string]float64) map[string]map[string]float64 {
	o := map[string]map[string]float64{}
	for k, v := range m {
		o[k] = map[string]float64{}
		for k2, v2 := range v {
			o[k][k2] = v2
		}
	}
	return o
}

// rowsEqual treats a missing row and an empty row alike.
func rowEqual(a, b map[string]float64) bool {
	if len(a) == 0 && len(b) == 0 {
		return true
	}
	return reflect.DeepEqual(a, b)
}

func kccEqual(a, b map[string]map[string]float64) bool {
	for k := range a {
		if !rowEqual(a[k], b[k]) {
			return false
		}
	}
	for k := range b {
		if !rowEqual(a[k], b[k]) {
			return false
		}
	}
	return true
}

func execC06(b []byte) vx.Verdict {
	var s C06Scn
	if err := json.Unmarshal(b, &s); err != nil {
		return vx.Inconclusive("bad scenario: %v", err)
	}
	if s.NPeers < 2 {
		s.NPeers = 2
	}
	opts := vx.NodeOpts{RouteUpdate: time.Hour, ServiceAd: 0, MaxIdle: time.Hour, MaxHops: 30}
	sut := vx.NewSUT(sutID, opts)
	defer sut.Close()
	peers := make([]*vx.Peer, s.NPeers)
	model := c06Model{newest: map[string][2]uint64{}, known: map[string]bool{}, seen: map[string]bool{}}
	for i := range peers {
		id := fmt.Sprintf("p%d", i)
		peers[i] = sut.AddPeer(id, vx.LinkSpec{Ordered: true}, netceptor.BackendConnectionCost(1.0))
		_ = peers[i].Hello(c06Epochs[1], 1, map[string]float64{sutID: 1.0})
		if !peers[i].WaitConnected(20 * time.Second) {
			return vx.Inconclusive("peer %s did not get established", id)
		}
	}
	var setup []vx.RoutingUpdate
	for i := range peers {
		// a first genuine update of each peer in the established phase (the handshake message itself is not a routing
		// update the statement speaks about); the model starts from it
		_ = peers[i].Hello(c06Epochs[1], 2, map[string]float64{sutID: 1.0})
		model.newest[peers[i].ID] = [2]uint64{c06Epochs[1], 2}
		model.known[peers[i].ID] = true
		setup = append(setup, vx.RoutingUpdate{NodeID: peers[i].ID, UpdateID: fmt.Sprintf("h-%s-%d-%d", peers[i].ID, c06Epochs[1], 2),
			UpdateEpoch: c06Epochs[1], UpdateSequence: 2, Connections: map[string]float64{sutID: 1.0}})
	}
	for _, p := range peers {
		if !p.Barrier(20 * time.Second) {
			return vx.Inconclusive("initial barrier failed")
		}
	}
	// learn the SUT's epoch from its hello
	var sutEpoch uint64
	if vx.WaitFor(10*time.Second, 10*time.Millisecond, func() string {
		for _, r := range peers[0].Routes() {
			if r.U.NodeID == sutID {
				sutEpoch = r.U.UpdateEpoch
				return ""
			}
		}
		return "no hello from sut"
	}) != "" {
		return vx.Inconclusive("no hello from sut")
	}
	time.Sleep(250 * time.Millisecond) // let the on-demand floods of the establishment phase drain

	origins := []string{"r1", "r2", "r3"}
	for i := range peers {
		origins = append(origins, peers[i].ID)
	}
	origins = append(origins, sutID)

	type sent struct {
		U     vx.RoutingUpdate
		Class string
		Link  int
	}
	var hist []sent
	expectRelay := map[string]int{}      // UpdateID -> link index of the accepted delivery
	senders := map[string]map[int]bool{} // UpdateID -> all links that delivered it simultaneously
	for i, u := range setup {
		expectRelay[u.UpdateID] = i
		model.seen[u.UpdateID] = true
	}
	labels := []string{}
	nontrivial := false
	acceptedFor := map[string]bool{}
	unconstrained := 0

	for i, d := range s.Deliveries {
		link := d.Link % len(peers)
		p := peers[link]
		var u vx.RoutingUpdate
		if d.Replay >= 0 && i > 0 {
			u = hist[d.Replay%i].U
			u.Connections = map[string]float64{}
			for k, v := range hist[d.Replay%i].U.Connections {
				u.Connections[k] = v
			}
		} else {
			origin := origins[d.Origin%len(origins)]
			u = vx.RoutingUpdate{NodeID: origin, UpdateID: fmt.Sprintf("u%d", i), UpdateSequence: c06Seq(d.Seq),
				Connections: c06Adj(d.Adj, origin)}
			if origin == sutID {
				switch d.Epoch % 3 {
				case 0:
					u.UpdateEpoch = sutEpoch
				case 1:
					u.UpdateEpoch = sutEpoch - (5 << 24)
				default:
					u.UpdateEpoch = sutEpoch + (5 << 24)
				}
				if d.Suspect > 0 {
					u.SuspectedDuplicate = c06Epochs[(d.Suspect-1)%3] // never the SUT's own epoch (that is C11's shutdown case)
				}
			} else {
				u.UpdateEpoch = c06Epochs[d.Epoch%3]
				if d.Suspect > 0 {
					u.SuspectedDuplicate = c06Epochs[(d.Suspect-1)%3]
				}
			}
		}
		if d.Replay >= 0 && i > 0 && u.NodeID == p.ID {
			if _, ok := u.Connections[sutID]; !ok {
				// a verbatim replay that would make the peer "stop listing" the node is C11's business: deliver it elsewhere
				link = (link + 1) % len(peers)
				p = peers[link]
			}
		}
		u.ForwardingNode = p.ID
		if u.NodeID == p.ID && !(d.Replay >= 0 && i > 0) {
			// an update a peer sends about itself stays admissible (C11 is not under test here)
			u.Connections[sutID] = 1.0
		}
		// ---- reference classification (from the statement; not a copy of handleRoutingUpdate)
		class := ""
		switch {
		case u.NodeID == sutID:
			class = "ignored-own"
		case model.seen[u.UpdateID]:
			class = "duplicate"
		case u.SuspectedDuplicate != 0:
			class = "notice"
		default:
			nw, known := model.newest[u.NodeID]
			if known && (u.UpdateEpoch < nw[0] || (u.UpdateEpoch == nw[0] && u.UpdateSequence <= nw[1])) {
				class = "stale"
			} else {
				class = "accepted"
			}
		}
		before := cloneKCC(sut.N.Status().KnownConnectionCosts)
		group := map[int]bool{link: true}
		if d.Replay < 0 && (u.NodeID == "r1" || u.NodeID == "r2" || u.NodeID == "r3") {
			for _, a := range d.Also {
				group[a%len(peers)] = true
			}
		}
		if len(group) > 1 {
			// the same update arrives over several links at the same moment (each copy names its own forwarder)
			start := make(chan struct{})
			done := make(chan error, len(group))
			for l := range group {
				cp := u
				cp.ForwardingNode = peers[l].ID
				raw := vx.EncodeRoute(&cp)
				go func(l int, raw []byte) { <-start; done <- peers[l].Send(raw) }(l, raw)
			}
			close(start)
			for range group {
				if err := <-done; err != nil {
					return vx.Inconclusive("send failed: %v", err)
				}
			}
			for l := range group {
				if !peers[l].Barrier(10 * time.Second) {
					return vx.Inconclusive("barrier after concurrent delivery %d timed out", i)
				}
			}
			senders[u.UpdateID] = group
			labels = append(labels, fmt.Sprintf("simultaneous-on-%d-links", len(group)))
			if class == "notice" || class == "accepted" {
				nontrivial = true
			}
		} else {
			if err := p.Send(vx.EncodeRoute(&u)); err != nil {
				return vx.Inconclusive("send failed on %s: %v", p.ID, err)
			}
			if !p.Barrier(10 * time.Second) {
				if p.SessionClosed() {
					return vx.Violation("admissible-update-kept", "C06/session-closed",
						"delivery %d (%s %+v) on %s: session was closed by the node although the update is admissible", i, class, u, p.ID)
				}
				return vx.Inconclusive("barrier after delivery %d timed out", i)
			}
		}
		after := cloneKCC(sut.N.Status().KnownConnectionCosts)
		// ---- model update
		if class != "ignored-own" {
			model.seen[u.UpdateID] = true
		}
		switch class {
		case "notice":
			if nw, ok := model.newest[u.NodeID]; ok && nw[0] == u.SuspectedDuplicate {
				model.newest[u.NodeID] = [2]uint64{u.UpdateEpoch, u.UpdateSequence}
			}
			expectRelay[u.UpdateID] = link
		case "accepted":
			model.newest[u.NodeID] = [2]uint64{u.UpdateEpoch, u.UpdateSequence}
			model.known[u.NodeID] = true
			expectRelay[u.UpdateID] = link
		}
		// ---- snapshot differential
		switch class {
		case "ignored-own", "duplicate", "stale", "notice":
			if !kccEqual(before, after) {
				return vx.Violation("picture-unchanged", "C06/regress:"+class,
					"delivery %d classified %s (%+v via %s) changed the picture:\n before %v\n after  %v\n history %s", i, class, u, p.ID, before, after, histString(hist))
			}
		case "accepted":
			if !rowEqual(after[u.NodeID], u.Connections) {
				return vx.Violation("accepted-applied", "C06/accepted-not-applied",
					"delivery %d accepted (%+v) but origin row is %v", i, u, after[u.NodeID])
			}
			for k := range before {
				if k == u.NodeID {
					continue
				}
				exp := map[string]float64{}
				for k2, v2 := range before[k] {
					exp[k2] = v2
				}
				if rowEqual(after[k], exp) {
					continue
				}
				delete(exp, u.NodeID)
				if !rowEqual(after[k], exp) {
					return vx.Violation("accepted-only-touches-origin", "C06/foreign-row-changed",
						"delivery %d accepted for origin %s changed row %s: before %v after %v", i, u.NodeID, k, before[k], after[k])
				}
			}
			for k := range after {
				if _, ok := before[k]; !ok && k != u.NodeID && len(after[k]) > 0 {
					return vx.Violation("accepted-only-touches-origin", "C06/foreign-row-added",
						"delivery %d accepted for origin %s added row %s=%v", i, u.NodeID, k, after[k])
				}
			}
		}
		if class == "stale" || class == "duplicate" {
			if acceptedFor[u.NodeID] {
				nontrivial = true
			}
		}
		if class == "accepted" {
			acceptedFor[u.NodeID] = true
		}
		labels = append(labels, "class:"+class)
		hist = append(hist, sent{U: u, Class: class, Link: link})
		// ---- expected relays must arrive
		if class == "accepted" || class == "notice" {
			for j, q := range peers {
				if j == link || senders[u.UpdateID][j] {
					continue
				}
				id := u.UpdateID
				if msg := vx.WaitFor(10*time.Second, 5*time.Millisecond, func() string {
					for _, r := range q.Routes() {
						if r.U.UpdateID == id && r.U.NodeID != sutID {
							return ""
						}
					}
					return "relay missing"
				}); msg != "" {
					return vx.Violation("relay-once", "C06/relay-missing", "delivery %d (%s, id %s) was not relayed to %s within 10s", i, class, id, q.ID)
				}
			}
		}
	}
	// ---- final: no unexpected relays, content of relays, own-origin floods
	for _, p := range peers {
		if !p.Barrier(10 * time.Second) {
			return vx.Inconclusive("final barrier timed out")
		}
	}
	time.Sleep(300 * time.Millisecond)
	byID := map[string]vx.RoutingUpdate{}
	for _, u := range setup {
		byID[u.UpdateID] = u
	}
	for _, h := range hist {
		byID[h.U.UpdateID] = h.U
	}
	backTo := map[string]int{} // UpdateID -> copies relayed to links that had delivered it simultaneously
	for j, q := range peers {
		count := map[string]int{}
		var lastOwnSeq uint64
		for _, r := range q.Routes() {
			if r.U.ForwardingNode != sutID {
				return vx.Violation("relay-forwarder", "C06/forwarder-not-rewritten", "peer %s received update %+v whose ForwardingNode is not the relaying node", q.ID, r.U)
			}
			if r.U.NodeID == sutID {
				if r.U.UpdateEpoch != sutEpoch {
					return vx.Violation("own-origin", "C06/own-epoch", "own update with foreign epoch %+v", r.U)
				}
				if r.U.UpdateSequence <= lastOwnSeq && lastOwnSeq != 0 {
					// sequence numbers of own floods may arrive out of order (independent writer goroutines); unconstrained
					unconstrained++
				}
				lastOwnSeq = r.U.UpdateSequence
				continue
			}
			count[r.U.UpdateID]++
			src, ok := expectRelay[r.U.UpdateID]
			if !ok {
				return vx.Violation("relay-once", "C06/unexpected-relay", "peer %s received a relay of %+v which was never accepted (history %s)", q.ID, r.U, histString(hist))
			}
			if g := senders[r.U.UpdateID]; len(g) > 1 {
				if g[j] {
					backTo[r.U.UpdateID]++
				}
			} else if src == j {
				return vx.CertainViolation("relay-not-back", "C06/relayed-back", "update %s was relayed back to the neighbour it came from (%s)", r.U.UpdateID, q.ID)
			}
			if count[r.U.UpdateID] > 1 {
				return vx.CertainViolation("relay-once", "C06/relayed-twice", "peer %s received %d relays of update %s (history %s)", q.ID, count[r.U.UpdateID], r.U.UpdateID, histString(hist))
			}
			o := byID[r.U.UpdateID]
			if o.NodeID != r.U.NodeID || o.UpdateEpoch != r.U.UpdateEpoch || o.UpdateSequence != r.U.UpdateSequence ||
				o.SuspectedDuplicate != r.U.SuspectedDuplicate || !rowEqual(o.Connections, r.U.Connections) {
				return vx.Violation("relay-identical", "C06/relay-altered", "relay %+v differs from original %+v", r.U, o)
			}
		}
	}
	for id, n := range backTo {
		// of k simultaneous copies exactly one is processed first; it may be relayed to the other k-1 deliverers, never to all k
		if n > len(senders[id])-1 {
			return vx.CertainViolation("relay-once", "C06/relayed-twice", "update %s arrived on %d links at once and was relayed back to %d of them: more than one copy was processed (history %s)",
				id, len(senders[id]), n, histString(hist))
		}
	}
	v := vx.OK(nontrivial && len(peers) >= 2, dedup(labels)...)
	v.Unconstrained = unconstrained
	return v
}

func histString(h interface{}) string {
	b, _ := json.Marshal(h)
	if len(b) > 2500 {
		b = b[len(b)-2500:]
	}
	return string(b)
}

func dedup(in []string) []string {
	seen := map[string]bool{}
	var out []string
	for _, x := range in {
		if !seen[x] {
			seen[x] = true
			out = append(out, x)
		}
	}
	return out
}

func init() { vx.Register("C06", execC06) }
