package netprops

import (
	"testing"
	"time"

	"pgregory.net/rapid"

	"verifharness/vx"
)

func genC10(t *rapid.T) C10Scn {
	n := rapid.IntRange(2, 6).Draw(t, "n")
	s := C10Scn{N: n}
	// chains are the interesting shape for hop counting: half of the cases are plain chains, the rest general graphs
	if rapid.Bool().Draw(t, "chain") {
		for i := 1; i < n; i++ {
			s.Links = append(s.Links, C01Link{A: i - 1, B: i, Cost4: 4})
		}
	} else {
		for _, e := range genGraph(t, n, n, false) {
			s.Links = append(s.Links, C01Link{A: e[0], B: e[1], Cost4: rapid.SampledFrom([]int{4, 4, 8, 2}).Draw(t, "cost4")})
		}
	}
	if rapid.IntRange(0, 3).Draw(t, "tight") == 0 {
		s.TightHops = true
		// the two probes that meet the maximum exactly when the mesh is a chain
		s.Probes = append(s.Probes, C10Probe{Kind: "trace", Src: 0, Dst: n - 1}, C10Probe{Kind: "ping", Src: n - 1, Dst: 0, H: n - 1})
	}
	np := rapid.IntRange(1, 10).Draw(t, "nprobes")
	for i := 0; i < np; i++ {
		p := C10Probe{Kind: rapid.SampledFrom([]string{"ping", "ping", "dgram", "dgram", "trace"}).Draw(t, "kind"),
			Src: rapid.IntRange(0, n-1).Draw(t, "src"), Dst: rapid.IntRange(0, n-1).Draw(t, "dst")}
		// budgets around the possible distances, plus the extremes
		p.H = rapid.OneOf(rapid.IntRange(0, n+1), rapid.SampledFrom([]int{0, 1, 29, 30, 31, 254, 255})).Draw(t, "h")
		s.Probes = append(s.Probes, p)
	}
	if rapid.IntRange(0, 2).Draw(t, "adversarial") > 0 {
		s.NextHops = rapid.SliceOfN(rapid.IntRange(0, 5), n, n).Draw(t, "nexthops")
		ni := rapid.IntRange(1, 4).Draw(t, "ninject")
		for i := 0; i < ni; i++ {
			s.Injects = append(s.Injects, C10Inject{Src: rapid.IntRange(0, n-1).Draw(t, "isrc"),
				H: rapid.OneOf(rapid.IntRange(0, 8), rapid.SampledFrom([]int{0, 1, 2, 30, 31, 64, 255})).Draw(t, "ih"), Forged: rapid.IntRange(0, 3).Draw(t, "forged") == 0})
		}
	}
	return s
}

func TestC10(t *testing.T) {
	st := vx.NewStats("C10", "hops", "real converged meshes of 2-6 nodes (chains and general graphs; maximum hop count 30, or in one case of four N-1 = the longest possible route); 1-10 probes {Ping, Traceroute, datagram with SetHopsToLive} for drawn (source, destination, budget 0..255, "+
		"biased to the neighbourhood of the route length); then, for a phantom destination, every node's next hop is set to a drawn neighbour (functional graphs with 2- and 3-cycles) and datagrams with drawn "+
		"budgets are injected; oracle: d = length of the actual next-hop chain; reach iff d <= h, otherwise 'message expired' from chain[h]; traceroute lists the chain; through loops the link taps show exactly h "+
		"transmissions along the installed hops with decreasing TTL, then one expiry notice from walk[h] and silence; non-trivial = budget < distance, or a loop walk with budget >= 3; distinct by canonical JSON")
	defer st.Flush()
	r := &vx.Runner{Name: "C10", Timeout: 240 * time.Second, Recycle: 40}
	defer r.Close()
	rapid.Check(t, func(t *rapid.T) {
		s := genC10(t)
		st.Judge(t, s, r.Run(s))
	})
}
