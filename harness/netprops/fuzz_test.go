package netprops

import (
	"math/rand"
	"os"
	"strconv"
	"testing"

	"pgregory.net/rapid"

	"verifharness/vx"
)

// Native fuzz targets (thorough tier only): go's coverage-guided fuzzer supplies the byte stream from which rapid draws the
// very same scenarios as the random search (rapid.MakeFuzz), so that coverage feedback from receptor's parsers steers the
// generators. Oracle, executor, statistics and saved failing scenario (JSON, replayable through TestReplay) are those of the
// random-search parts; only the source of the bits differs. The campaign itself cannot be pinned to a seed (go's fuzzer has no
// such flag); the seed corpus below is a function of VX_SEED.

const fuzzNote = " [same generator and oracle, bits supplied by go's coverage-guided native fuzzer through rapid.MakeFuzz; 16 workers, time-bounded]"

func fuzzSeeds(f *testing.F) {
	seed, _ := strconv.ParseInt(os.Getenv("VX_SEED"), 10, 64)
	rng := rand.New(rand.NewSource(seed))
	for i := 0; i < 48; i++ {
		b := make([]byte, 256<<(i%5))
		rng.Read(b)
		f.Add(b)
	}
}

func FuzzC20Der(f *testing.F) {
	st := vx.NewStats("C20", "der-fuzz", c20DerRule+fuzzNote).Fuzz()
	r := &vx.Runner{Name: "C20.der", InProc: true}
	fuzzSeeds(f)
	f.Fuzz(rapid.MakeFuzz(func(t *rapid.T) {
		s := genC20Der(t)
		st.Judge(t, s, r.Run(s))
	}))
}

func FuzzC12Pure(f *testing.F) {
	st := vx.NewStats("C12", "pure-fuzz", c12PureRule+fuzzNote).Fuzz()
	r := &vx.Runner{Name: "C12.pure", InProc: true}
	fuzzSeeds(f)
	f.Fuzz(rapid.MakeFuzz(func(t *rapid.T) {
		s := genC12Pure(t)
		st.Judge(t, s, r.Run(s))
	}))
}

func FuzzC09Verify(f *testing.F) {
	st := vx.NewStats("C09", "verify-fuzz", "[function returned by ReceptorVerifyFunc] "+c09Rule+fuzzNote).Fuzz()
	r := &vx.Runner{Name: "C09.verify", InProc: true}
	fuzzSeeds(f)
	f.Fuzz(rapid.MakeFuzz(func(t *rapid.T) {
		s := genC09(t)
		st.Judge(t, s, r.Run(s))
	}))
}

func FuzzC20Issue(f *testing.F) {
	st := vx.NewStats("C20", "issue-fuzz", c20IssueRule+fuzzNote).Fuzz()
	r := &vx.Runner{Name: "C20.issue", InProc: true}
	fuzzSeeds(f)
	f.Fuzz(rapid.MakeFuzz(func(t *rapid.T) {
		s := genC20(t)
		st.Judge(t, s, r.Run(s))
	}))
}
