package netprops

import (
	"testing"
	"time"

	"pgregory.net/rapid"

	"verifharness/vx"
)

func genFaults(t *rapid.T, class string, label string) []vx.Fault {
	n := rapid.IntRange(50, 200).Draw(t, label+"-n")
	maxDropPct := map[string]int{"lossless": 0, "light": 3, "stress": 10}[class]
	out := make([]vx.Fault, 0, n)
	drops := 0
	for i := 0; i < n; i++ {
		k := rapid.IntRange(0, 99).Draw(t, label+"-k")
		switch {
		case k < maxDropPct && (drops+1)*100 <= maxDropPct*n:
			out = append(out, vx.Fault{Kind: "drop"})
			drops++
		case k < 12:
			out = append(out, vx.Fault{Kind: "dup"})
		case k < 22:
			out = append(out, vx.Fault{Kind: "hold"})
		case k < 32:
			out = append(out, vx.Fault{Kind: "delay", DelayMs: rapid.SampledFrom([]int{1, 3, 10, 30}).Draw(t, label+"-d")})
		default:
			out = append(out, vx.Fault{Kind: "pass"})
		}
	}
	return out
}

func genWrites(t *rapid.T, label string, maxTotal int) []int {
	var out []int
	total := 0
	n := rapid.IntRange(0, 12).Draw(t, label+"-n")
	if rapid.IntRange(0, 9).Draw(t, label+"-big") < 6 {
		// a bulk transfer: fill most of the allowance with a few large writes first
		for total < maxTotal/2 {
			sz := rapid.SampledFrom([]int{8192, 16384, 20000, 65536}).Draw(t, label+"-bulk")
			if total+sz > maxTotal {
				break
			}
			out = append(out, sz)
			total += sz
		}
	}
	for i := 0; i < n; i++ {
		sz := rapid.OneOf(rapid.SampledFrom([]int{1, 2, 100, 1199, 1200, 1201, 4096, 16384, 65535, 65536, 65537}), rapid.IntRange(1, 3000)).Draw(t, label+"-sz")
		if total+sz > maxTotal {
			break
		}
		out = append(out, sz)
		total += sz
	}
	return out
}

func genC03(t *rapid.T) C03Scn {
	maxTotal := 64 << 10
	if thorough() {
		maxTotal = 1 << 20
	}
	s := C03Scn{Hops: rapid.IntRange(1, 4).Draw(t, "hops"), Detour: rapid.IntRange(0, 2).Draw(t, "detour") == 0,
		Class: rapid.SampledFrom([]string{"clean", "lossless", "light", "light", "light", "stress"}).Draw(t, "class"),
		Mode:  rapid.SampledFrom([]string{"direct", "direct", "proxy"}).Draw(t, "mode"),
		Shape: rapid.SampledFrom([]string{"duplex", "duplex", "pingpong"}).Draw(t, "shape")}
	if s.Detour && rapid.Bool().Draw(t, "longer") {
		s.Hops = rapid.IntRange(3, 4).Draw(t, "detourhops") // interior links exist
	}
	cut := s.Detour && rapid.IntRange(0, 3).Draw(t, "cut") > 0
	if cut && s.Class == "stress" {
		s.Class = "light" // re-routing is asserted on links that lose at most 3 %
	}
	if s.Class != "clean" {
		for i := 0; i < s.Hops; i++ {
			s.Links = append(s.Links, C03Link{AB: genFaults(t, s.Class, "ab"), BA: genFaults(t, s.Class, "ba")})
		}
	}
	s.WritesA = genWrites(t, "wa", maxTotal)
	s.WritesB = genWrites(t, "wb", maxTotal)
	if len(s.WritesA) == 0 {
		s.WritesA = []int{1} // the dialling side always sends something (an application-level convention of receptor streams)
	}
	s.ReadA = rapid.SliceOfN(rapid.SampledFrom([]int{1, 7, 512, 4096, 65536}), 1, 3).Draw(t, "ra")
	s.ReadB = rapid.SliceOfN(rapid.SampledFrom([]int{1, 7, 512, 4096, 65536}), 1, 3).Draw(t, "rb")
	if tw := rapid.IntRange(0, 2).Draw(t, "twin"); tw == 0 || (s.Mode == "proxy" && tw == 1) {
		s.Twin = true
		s.TwinA = genWrites(t, "twa", maxTotal/2)
		s.TwinB = genWrites(t, "twb", maxTotal/2)
		if len(s.TwinA) == 0 {
			s.TwinA = []int{1}
		}
	}
	if cut {
		s.CutAt = rapid.SampledFrom([]int{1, 1000, 20000}).Draw(t, "cutat")
		s.CutLink = rapid.IntRange(0, 3).Draw(t, "cutlink")
		if s.Hops >= 3 && rapid.IntRange(0, 3).Draw(t, "interior") > 0 {
			s.CutLink = rapid.IntRange(1, s.Hops-2).Draw(t, "interiorlink") // not next to an endpoint
		}
	}
	return s
}

func TestC03(t *testing.T) {
	st := vx.NewStats("C03", "streams", "real chains of 1-4 hops (optionally with a costlier detour) whose links run drawn fault programmes of 50-200 actions per direction {pass, drop, duplicate, delay, hold-back = reorder}: "+
		"clean, lossless, light (<= 3 % drop) or stress (<= 10 %); two write scripts (sizes 1 B - 64 KiB+1, total <= 64 KiB quick / 1 MiB thorough), reader buffer sizes 1 B - 64 KiB, duplex or ping-pong, direct mesh stream or "+
		"through the TCP proxy services; in one scenario of three (two of three through the proxies) a second connection to the same service / through the same proxy is opened at the same moment with its own two byte sequences; optionally a main-path link is cut once k bytes have arrived; oracle: every byte read equals the byte written at that offset (always), nothing beyond what was written, end-of-stream "+
		"only after all data; completeness within 75 s for clean / lossless / light (stress: inconclusive); non-trivial = >= 1 dropped and >= 1 reordered datagram and >= 8 KiB moved, or a re-route")
	defer st.Flush()
	r := &vx.Runner{Name: "C03", Timeout: 300 * time.Second, Recycle: 15}
	defer r.Close()
	rapid.Check(t, func(t *rapid.T) {
		s := genC03(t)
		st.Judge(t, s, r.Run(s))
	})
}
