package netprops

import (
	"context"
	"encoding/json"
	"fmt"
	"sort"
	"strings"
	"sync"
	"time"

	"github.com/ansible/receptor/pkg/netceptor"

	"verifharness/vx"
)

// ---- scenario ----------------------------------------------------------------------------------------

type C16Send struct {
	Sock    int    `json:"sock"`           // which of the sender's sockets
	Target  int    `json:"target"`         // target node index (may be the sender's own node)
	Case    string `json:"case"`           // unbound | closed | racing | dropped | bound
	Burst   int    `json:"burst"`          // 1..6 datagrams in quick succession (to distinct service names)
	Budget  int    `json:"budget"`         // 0 = socket default; k>0 = route length + k - 1 hops
	RaceUs  int    `json:"race_us,omitempty"`
}

type C16Dial struct {
	Target int    `json:"target"`
	Case   string `json:"case"` // unbound | dropped
}

type C16Scn struct {
	N        int       `json:"n"`     // chain n0 - n1 - ... ; sender is n0
	ExtraHop int       `json:"extra"` // node hop limit = (n-1) + extra   (extra 0 = exactly the diameter)
	Socks    int       `json:"socks"` // number of sockets on the sender (1..5)
	SlowUs   int       `json:"slow_us"` // the consumer of notices sleeps this long per notice
	Sends    []C16Send `json:"sends"`
	Dials    []C16Dial `json:"dials"`
}

type c16Note struct {
	sock int
	n    netceptor.UnreachableNotification
}

func execC16(b []byte) vx.Verdict {
	var s C16Scn
	if err := json.Unmarshal(b, &s); err != nil {
		return vx.Inconclusive("bad scenario: %v", err)
	}
	if s.N < 2 {
		s.N = 2
	}
	if s.Socks < 1 {
		s.Socks = 1
	}
	opts := vx.DefaultNodeOpts()
	opts.MaxHops = byte(s.N - 1 + s.ExtraHop)
	m := vx.NewMesh(opts)
	defer m.Close()
	names := make([]string, s.N)
	for i := range names {
		names[i] = nodeName(i)
		m.StartNode(names[i])
	}
	var edges []vx.Edge
	for i := 0; i+1 < s.N; i++ {
		m.AddLink(&vx.Link{A: names[i], B: names[i+1], CostA: 1, CostB: 1, Spec: vx.LinkSpec{Ordered: true}})
		edges = append(edges, vx.Edge{A: names[i], B: names[i+1], Cost: 1})
	}
	exp := expectedTables(names, edges)
	if msg := vx.WaitFor(40*opts.RouteUpdate+10*time.Second, 50*time.Millisecond, func() string { return checkRouting(m, names, exp) }); msg != "" {
		return vx.Inconclusive("mesh did not converge: %s", msg)
	}
	sender := m.Node(names[0]).N
	// drop rules: every node silently drops traffic to service "dropme"
	for _, nm := range names[1:] {
		rules, err := netceptor.ParseFirewallRules([]netceptor.FirewallRuleData{{"action": "drop", "toservice": "dropme"}})
		if err != nil {
			return vx.Inconclusive("rules: %v", err)
		}
		_ = m.Node(nm).N.AddFirewallRules(rules, true)
	}
	// a bound, read service on every node ("bound"): packets for it must arrive and produce no notice
	var delivMu sync.Mutex
	delivered := map[string]int{}
	for _, nm := range names {
		pc, err := m.Node(nm).N.ListenPacket("bound")
		if err != nil {
			return vx.Inconclusive("listen: %v", err)
		}
		go func(pc netceptor.PacketConner) {
			buf := make([]byte, 2048)
			for {
				n, _, err := pc.ReadFrom(buf)
				if err != nil {
					return
				}
				delivMu.Lock()
				delivered[string(buf[:n])]++
				delivMu.Unlock()
			}
		}(pc)
	}
	// sender sockets
	var noteMu sync.Mutex
	var notes []c16Note
	socks := make([]netceptor.PacketConner, s.Socks)
	svcOf := make([]string, s.Socks)
	// service names are exact: the first three differ in letter case only
	sockNames := []string{"snd", "Snd", "SND", "snd3", "snd4", "snd5"}
	for i := range socks {
		pc, err := sender.ListenPacket(sockNames[i%len(sockNames)])
		if err != nil {
			return vx.Inconclusive("listen: %v", err)
		}
		socks[i] = pc
		svcOf[i] = sockNames[i%len(sockNames)]
		done := make(chan struct{})
		defer close(done)
		ch := pc.SubscribeUnreachable(done)
		go func(i int) {
			for n := range ch {
				noteMu.Lock()
				notes = append(notes, c16Note{i, n})
				noteMu.Unlock()
				if s.SlowUs > 0 {
					time.Sleep(time.Duration(s.SlowUs) * time.Microsecond)
				}
			}
		}(i)
	}
	labels := []string{fmt.Sprintf("socks=%d", s.Socks), fmt.Sprintf("hoplimit=diameter+%d", s.ExtraHop)}
	type want struct {
		sock     int
		toNode   string
		toSvc    string
		syncErr  bool
	}
	var wants []want
	svcCtr := 0
	nontrivial := false
	anyRacing := false
	for si, sd := range s.Sends {
		sock := sd.Sock % s.Socks
		ti := sd.Target % s.N
		target := names[ti]
		burst := sd.Burst
		if burst < 1 {
			burst = 1
		}
		pc := socks[sock]
		if sd.Budget > 0 && ti > 0 {
			pc.SetHopsToLive(byte(ti + sd.Budget - 1))
			labels = append(labels, fmt.Sprintf("budget=route+%d", sd.Budget-1))
		} else {
			pc.SetHopsToLive(opts.MaxHops)
		}
		for k := 0; k < burst; k++ {
			svcCtr++
			var svc string
			switch sd.Case {
			case "dropped":
				svc = "dropme"
			case "bound":
				svc = "bound"
			default:
				svc = fmt.Sprintf("u%d", svcCtr)
			}
			payload := fmt.Sprintf("p-%d-%d", si, k)
			if sd.Case == "closed" || sd.Case == "racing" {
				// bind the service on the target, then close it (strictly before the send, or around it)
				tpc, err := m.Node(target).N.ListenPacket(svc)
				if err != nil {
					return vx.Inconclusive("listen: %v", err)
				}
				if sd.Case == "closed" {
					_ = tpc.Close()
				} else {
					anyRacing = true
					go func() {
						time.Sleep(time.Duration(sd.RaceUs) * time.Microsecond)
						_ = tpc.Close()
					}()
				}
			}
			_, err := pc.WriteTo([]byte(payload), sender.NewAddr(target, svc))
			switch sd.Case {
			case "unbound", "closed":
				if ti == 0 {
					// same node: the synchronous error is how the sender learns
					if err == nil {
						wants = append(wants, want{sock, target, svc, false})
					} else if !strings.Contains(err.Error(), netceptor.ProblemServiceUnknown) {
						return vx.Violation("sender-learns", "C16/local-error-other", "send %d to own node unbound service %s: error %v", si, svc, err)
					}
					labels = append(labels, "same-node")
				} else {
					if err != nil {
						return vx.Violation("sender-learns", "C16/write-error", "send %d: WriteTo(%s:%s): %v", si, target, svc, err)
					}
					wants = append(wants, want{sock, target, svc, false})
					if s.Socks >= 2 {
						nontrivial = true
					}
				}
				labels = append(labels, "case:"+sd.Case)
			case "racing":
				labels = append(labels, "case:racing")
			case "dropped":
				labels = append(labels, "case:dropped")
			case "bound":
				if ti > 0 || true {
					p := payload
					if vx.WaitFor(20*time.Second, 5*time.Millisecond, func() string {
						delivMu.Lock()
						defer delivMu.Unlock()
						if delivered[p] > 0 {
							return ""
						}
						return "x"
					}) != "" {
						return vx.Violation("bound-delivered", "C16/bound-not-delivered", "send %d: datagram to bound service on %s was not delivered", si, target)
					}
				}
				labels = append(labels, "case:bound")
			}
		}
		if burst >= 3 {
			labels = append(labels, "burst>=3")
		}
	}
	// ---- every expected notice arrives at its socket
	matches := func(n c16Note, w want) bool {
		return n.sock == w.sock && n.n.Problem == netceptor.ProblemServiceUnknown && n.n.ToNode == w.toNode && n.n.ToService == w.toSvc &&
			n.n.FromNode == names[0] && n.n.FromService == svcOf[w.sock] && n.n.ReceivedFromNode == w.toNode
	}
	missing := func() []want {
		noteMu.Lock()
		defer noteMu.Unlock()
		var out []want
		for _, w := range wants {
			found := false
			for _, n := range notes {
				if matches(n, w) {
					found = true
					break
				}
			}
			if !found {
				out = append(out, w)
			}
		}
		return out
	}
	if msg := vx.WaitFor(25*time.Second, 10*time.Millisecond, func() string {
		if ms := missing(); len(ms) > 0 {
			return fmt.Sprintf("%d of %d notices missing, e.g. socket %s for %s:%s", len(ms), len(wants), svcOf[ms[0].sock], ms[0].toNode, ms[0].toSvc)
		}
		return ""
	}); msg != "" {
		noteMu.Lock()
		got := fmt.Sprintf("%+v", notes)
		noteMu.Unlock()
		if len(got) > 1500 {
			got = got[:1500]
		}
		return vx.Violation("sender-learns", "C16/notice-missing", "%s (notices received: %s)", msg, got)
	}
	// ---- and nothing else arrives anywhere (grace)
	time.Sleep(400 * time.Millisecond)
	if anyRacing {
		time.Sleep(300 * time.Millisecond)
	}
	noteMu.Lock()
	used := make([]bool, len(wants))
	for _, n := range notes {
		ok := false
		for i, w := range wants {
			if !used[i] && matches(n, w) {
				used[i], ok = true, true
				break
			}
		}
		if ok {
			continue
		}
		// a notice nobody asked for: allowed only for the racing sends (either outcome), and then it must be well-formed and on the right socket
		if anyRacing && n.n.Problem == netceptor.ProblemServiceUnknown && n.n.FromNode == names[0] && n.n.FromService == svcOf[n.sock] {
			continue
		}
		noteMu.Unlock()
		sig := "C16/unexpected-notice"
		if n.n.FromService != svcOf[n.sock] {
			sig = "C16/notice-on-wrong-socket"
		}
		return vx.CertainViolation("only-the-sender", sig, "socket %s received a notice it must not get: %+v (expected notices: %+v)", svcOf[n.sock], n.n, wants)
	}
	noteMu.Unlock()
	// ---- dials
	for di, d := range s.Dials {
		ti := 1 + d.Target%(s.N-1)
		target := names[ti]
		switch d.Case {
		case "unbound":
			ctx, cancel := context.WithTimeout(context.Background(), 40*time.Second)
			start := time.Now()
			var err error
			var conn *netceptor.Conn
			ok := vx.WithDeadline(45*time.Second, func() { conn, err = sender.DialContext(ctx, target, fmt.Sprintf("nd%d", di), nil) })
			cancel()
			took := time.Since(start)
			if !ok {
				return vx.Violation("dial-fails-fast", "C16/dial-blocked", "dial %d to unbound service on %s did not return within 45 s", di, target)
			}
			if err == nil {
				conn.Close()
				return vx.CertainViolation("dial-fails-fast", "C16/dial-succeeded", "dial %d to an unbound service on %s succeeded", di, target)
			}
			if took > 10*time.Second {
				return vx.Violation("dial-fails-fast", "C16/dial-waited-out-timeout", "dial %d to an unbound service on %s (%d hops, node hop limit %d) failed only after %v (%v): it was not abandoned because of the notice", di, target, ti, opts.MaxHops, took.Round(time.Millisecond), err)
			}
			labels = append(labels, "dial:unbound")
			nontrivial = true
		case "dropped":
			ctx, cancel := context.WithTimeout(context.Background(), 3*time.Second)
			start := time.Now()
			var err error
			var conn *netceptor.Conn
			ok := vx.WithDeadline(20*time.Second, func() { conn, err = sender.DialContext(ctx, target, "dropme", nil) })
			cancel()
			took := time.Since(start)
			if !ok {
				return vx.Violation("dial", "C16/dial-blocked", "dial %d to a silently dropped service did not return 17 s after its own deadline", di)
			}
			if err == nil {
				conn.Close()
				return vx.CertainViolation("no-notice-for-dropped", "C16/dial-succeeded", "dial %d to a silently dropped service succeeded", di)
			}
			if took < 2500*time.Millisecond {
				return vx.Violation("no-notice-for-dropped", "C16/dropped-dial-ended-early", "dial %d to a silently dropped service ended after %v (%v) although nothing may tell the sender", di, took.Round(time.Millisecond), err)
			}
			labels = append(labels, "dial:dropped")
		}
	}
	sort.Strings(labels)
	return vx.OK(nontrivial, dedup(labels)...)
}

func init() { vx.Register("C16", execC16) }
