package netprops

import (
	"encoding/json"
	"fmt"
	"sort"
	"time"

	"verifharness/vx"
)

// ---- scenario ----------------------------------------------------------------------------------------

type C01Link struct {
	A, B     int
	Cost4    int   `json:"cost4"` // cost = Cost4 * 0.25
	OvA, OvB bool  // express the cost as per-node override at that end
	DelAB    []int `json:"dab,omitempty"` // per-datagram delays in ms (cycled), FIFO kept
	DelBA    []int `json:"dba,omitempty"`
}

type C01Event struct {
	Kind  string `json:"k"` // linkDown linkUp silent nodeStop nodeRestart
	Idx   int    `json:"i"` // link or node index (taken modulo what exists)
	GapMs int    `json:"gap"`
}

type C01Scn struct {
	N          int        `json:"n"`
	Links      []C01Link  `json:"links"`
	Events     []C01Event `json:"events"`
	InitWaitMs int        `json:"initwait"`
	IdleMs     int        `json:"idle"`
	IdleSlow   []int      `json:"idle_slow,omitempty"` // nodes whose idle limit is four times IdleMs: the two ends of a dead session give up at different times
	RouteMs    int        `json:"route_ms,omitempty"`  // route-update period (default 250 ms); short periods + long InitWaitMs = nodes that have sent hundreds of updates before the first event
}

func nodeName(i int) string { return fmt.Sprintf("n%d", i) }

func delaysToFaults(d []int) []vx.Fault {
	var f []vx.Fault
	for _, ms := range d {
		if ms <= 0 {
			f = append(f, vx.Fault{Kind: "pass"})
		} else {
			f = append(f, vx.Fault{Kind: "delay", DelayMs: ms})
		}
	}
	return f
}

// expectedTables returns, per live node, dist and the set of acceptable next hops per destination.
type expTable struct {
	dist map[string]float64
	hops map[string]map[string]bool
}

func expectedTables(live []string, edges []vx.Edge) map[string]expTable {
	d := vx.ShortestPaths(live, edges)
	adj := map[string]map[string]float64{}
	for _, e := range edges {
		if adj[e.A] == nil {
			adj[e.A] = map[string]float64{}
		}
		if adj[e.B] == nil {
			adj[e.B] = map[string]float64{}
		}
		adj[e.A][e.B] = e.Cost
		adj[e.B][e.A] = e.Cost
	}
	out := map[string]expTable{}
	for _, u := range live {
		et := expTable{dist: map[string]float64{}, hops: map[string]map[string]bool{}}
		for v, dv := range d[u] {
			if v == u {
				continue
			}
			et.dist[v] = dv
			et.hops[v] = map[string]bool{}
			for n, c := range adj[u] {
				if dn, ok := d[n][v]; ok && c+dn == dv {
					et.hops[v][n] = true
				}
			}
		}
		out[u] = et
	}
	return out
}

func tablesEqual(a, b map[string]expTable) bool {
	if len(a) != len(b) {
		return false
	}
	for u, ta := range a {
		tb, ok := b[u]
		if !ok || len(ta.dist) != len(tb.dist) {
			return false
		}
		for v, d := range ta.dist {
			if tb.dist[v] != d || len(ta.hops[v]) != len(tb.hops[v]) {
				return false
			}
			for h := range ta.hops[v] {
				if !tb.hops[v][h] {
					return false
				}
			}
		}
	}
	return true
}

// checkRouting compares every live node's routing table with the oracle; "" when all agree.
func checkRouting(m *vx.Mesh, live []string, exp map[string]expTable) string {
	for _, u := range live {
		node := m.Node(u)
		if node == nil {
			return "node " + u + " missing"
		}
		var rt map[string]string
		if !vx.WithDeadline(5*time.Second, func() { rt = node.N.Status().RoutingTable }) {
			return "BLOCKED: Status() of " + u + " did not return within 5s"
		}
		et := exp[u]
		for v := range et.dist {
			hop, ok := rt[v]
			if !ok {
				return fmt.Sprintf("node %s: reachable %s missing from routing table %v", u, v, rt)
			}
			if !et.hops[v][hop] {
				return fmt.Sprintf("node %s: next hop for %s is %s, not on a least-cost path (acceptable %v, dist %v)", u, v, hop, keys(et.hops[v]), et.dist[v])
			}
			pc, err := node.N.PathCost(v)
			if err != nil || pc != et.dist[v] {
				return fmt.Sprintf("node %s: PathCost(%s)=%v,%v want %v", u, v, pc, err, et.dist[v])
			}
		}
		for v := range rt {
			if _, ok := et.dist[v]; !ok {
				return fmt.Sprintf("node %s: routing table lists unreachable %s via %s", u, v, rt[v])
			}
		}
	}
	// next-hop walk: reaches destination without revisiting
	for _, u := range live {
		for v := range exp[u].dist {
			cur, seen := u, map[string]bool{u: true}
			for steps := 0; cur != v; steps++ {
				n := m.Node(cur)
				if n == nil {
					return "walk hit dead node " + cur
				}
				nh, ok := n.N.Status().RoutingTable[v]
				if !ok {
					return fmt.Sprintf("walk %s->%s: node %s has no route", u, v, cur)
				}
				if seen[nh] {
					return fmt.Sprintf("walk %s->%s revisits %s", u, v, nh)
				}
				seen[nh] = true
				cur = nh
			}
		}
	}
	return ""
}

func keys(m map[string]bool) []string {
	var k []string
	for x := range m {
		k = append(k, x)
	}
	sort.Strings(k)
	return k
}

func execC01(b []byte) vx.Verdict {
	var s C01Scn
	if err := json.Unmarshal(b, &s); err != nil {
		return vx.Inconclusive("bad scenario: %v", err)
	}
	opts := vx.DefaultNodeOpts()
	if s.IdleMs > 0 {
		opts.MaxIdle = time.Duration(s.IdleMs) * time.Millisecond
	}
	if s.RouteMs > 0 {
		opts.RouteUpdate = time.Duration(s.RouteMs) * time.Millisecond
	}
	R := opts.RouteUpdate
	m := vx.NewMesh(opts)
	maxIdle := opts.MaxIdle
	if len(s.IdleSlow) > 0 {
		m.IdleByNode = map[string]time.Duration{}
		for _, i := range s.IdleSlow {
			m.IdleByNode[nodeName(i%s.N)] = 4 * opts.MaxIdle
		}
		maxIdle = 4 * opts.MaxIdle
	}
	t0 := time.Now()
	agedRestart := false
	defer m.Close()
	names := make([]string, s.N)
	alive := map[string]bool{}
	stoppedAt := map[string]time.Time{}
	for i := 0; i < s.N; i++ {
		names[i] = nodeName(i)
		m.StartNode(names[i])
		alive[names[i]] = true
	}
	links := make([]*vx.Link, len(s.Links))
	for i, l := range s.Links {
		links[i] = &vx.Link{A: nodeName(l.A), B: nodeName(l.B), CostA: float64(l.Cost4) * 0.25, CostB: float64(l.Cost4) * 0.25,
			OverrideA: l.OvA, OverrideB: l.OvB, Spec: vx.LinkSpec{Ordered: true, AB: delaysToFaults(l.DelAB), BA: delaysToFaults(l.DelBA)}}
		m.AddLink(links[i])
	}
	graph := func() ([]string, []vx.Edge) {
		var live []string
		for _, n := range names {
			if alive[n] {
				live = append(live, n)
			}
		}
		var edges []vx.Edge
		for i, l := range links {
			if l.IsUp() && alive[l.A] && alive[l.B] {
				edges = append(edges, vx.Edge{A: l.A, B: l.B, Cost: float64(s.Links[i].Cost4) * 0.25})
			}
		}
		return live, edges
	}
	live0, edges0 := graph()
	exp0 := expectedTables(live0, edges0)
	time.Sleep(time.Duration(s.InitWaitMs) * time.Millisecond)
	labels := []string{fmt.Sprintf("n=%d", s.N)}
	sawSilent := false
	var silentAt time.Time
	for _, ev := range s.Events {
		time.Sleep(time.Duration(ev.GapMs) * time.Millisecond)
		switch ev.Kind {
		case "linkDown", "linkUp", "silent":
			if len(links) == 0 {
				continue
			}
			l := links[ev.Idx%len(links)]
			switch ev.Kind {
			case "linkDown":
				l.SetUp(false)
			case "linkUp":
				l.SetUp(true)
			case "silent":
				if l.IsUp() {
					l.SetSilent(true)
					sawSilent = true
					silentAt = time.Now()
				}
			}
		case "nodeStop":
			n := names[ev.Idx%len(names)]
			if alive[n] {
				m.StopNode(n)
				alive[n] = false
				stoppedAt[n] = time.Now()
			}
		case "nodeRestart":
			n := names[ev.Idx%len(names)]
			if alive[n] {
				m.StopNode(n)
				alive[n] = false
				stoppedAt[n] = time.Now()
			}
			// precondition of the property: start epochs differ (one-second granularity)
			if d := time.Since(stoppedAt[n]); d < 1200*time.Millisecond {
				time.Sleep(1200*time.Millisecond - d)
			}
			m.StartNode(n)
			alive[n] = true
			if time.Since(t0) > 100*R+4*time.Second {
				agedRestart = true // the old incarnation had sent more updates than the convergence bound has periods
			}
		}
		labels = append(labels, "ev:"+ev.Kind)
	}
	if sawSilent {
		// a silent failure changes nothing until the idle limits strike (checked every 5 s by each node): judging before that would
		// compare the still untouched tables with an expectation they happen to meet
		if d := time.Until(silentAt.Add(maxIdle + 6500*time.Millisecond)); d > 0 {
			time.Sleep(d)
		}
	}
	live, edges := graph()
	exp := expectedTables(live, edges)
	deadline := 40*R + 3*time.Second
	if sawSilent {
		deadline += maxIdle + 12*time.Second
	}
	start := time.Now()
	var last string
	for {
		left := deadline - time.Since(start)
		if left <= 0 {
			break
		}
		last = vx.WaitFor(left, 50*time.Millisecond, func() string { return checkRouting(m, live, exp) })
		if last != "" {
			break
		}
		time.Sleep(2 * R)
		last = checkRouting(m, live, exp)
		if last == "" {
			break
		}
	}
	if last != "" {
		conns := ""
		for _, u := range live {
			if n := m.Node(u); n != nil {
				var cs []string
				for _, c := range n.N.Status().Connections {
					cs = append(cs, fmt.Sprintf("%s(%v)", c.NodeID, c.Cost))
				}
				sort.Strings(cs)
				conns += fmt.Sprintf(" %s:%v", u, cs)
			}
		}
		return vx.Violation("converge", "C01/no-convergence", "after %v: %s (live %v edges %v; connections each node reports:%s)", time.Since(start).Round(time.Millisecond), last, live, edges, conns)
	}
	// ---- the routes carry: following next hops reaches the destination (one probe per live node, to its farthest reachable node).
	// Tables alone cannot tell a live neighbour from an entry that outlived its session.
	for _, u := range live {
		et := exp[u]
		far, fd := "", -1.0
		var dsts []string
		for v := range et.dist {
			dsts = append(dsts, v)
		}
		sort.Strings(dsts)
		for _, v := range dsts {
			if et.dist[v] > fd {
				far, fd = v, et.dist[v]
			}
		}
		if far == "" {
			continue
		}
		if msg := pingUntil(m.Node(u).N, far, 8*time.Second); msg != "" {
			return vx.Violation("next-hops-reach", "C01/route-does-not-carry", "tables agree with the topology, but a ping from %s to %s (reachable at cost %v) gets no answer within 8 s: %s (live %v edges %v)", u, far, fd, msg, live, edges)
		}
	}
	changed := !tablesEqual(exp0, exp)
	tie, multihop := false, false
	for _, et := range exp {
		for v, h := range et.hops {
			if len(h) > 1 {
				tie = true
			}
			if !h[v] {
				multihop = true
			}
		}
	}
	if agedRestart {
		labels = append(labels, "restart-after-long-uptime")
	}
	if changed {
		labels = append(labels, "tables-changed-by-events")
	}
	if tie {
		labels = append(labels, "cost-tie")
	}
	if multihop {
		labels = append(labels, "multihop")
	}
	if len(live) < s.N {
		labels = append(labels, "node-down-at-end")
	}
	// partition?
	for _, et := range exp {
		if len(et.dist) < len(live)-1 {
			labels = append(labels, "partitioned")
			break
		}
	}
	nontrivial := s.N >= 3 && (changed || (multihop && tie))
	return vx.OK(nontrivial, labels...)
}

func init() { vx.Register("C01", execC01) }
