package netprops

import (
	"encoding/json"
	"fmt"
	"sort"
	"sync"
	"time"

	"github.com/ansible/receptor/pkg/netceptor"

	"verifharness/vx"
)

// ---- scenario ----------------------------------------------------------------------------------------

type C12Send struct {
	From    int  `json:"from"` // node index 0..2
	FromSvc int  `json:"fs"`   // index into the service list
	To      int  `json:"to"`
	ToSvc   int  `json:"ts"`
	Forged  bool `json:"forged,omitempty"` // injected by a scripted peer of the source node with source service "unreach"
}

type C12Mesh struct {
	Names [3]string   `json:"names"` // chain Names[0] - Names[1] - Names[2]
	Rules [3][]FWRule `json:"rules"` // valid rule sets of the three nodes
	Sends []C12Send   `json:"sends"`
}

var c12MeshSvcs = []string{"a", "ab", "control", "foo", "bar", "xbar", "foobaz", "echo"}

type c12Outcome struct {
	delivered bool
	notice    bool
	noticeBy  string
	where     string
}

// c12Model walks the packet along its path through the three rule sets (reference interpreter).
func c12Model(names [3]string, rules [3][]refRule, p FWPacket, from, to int) c12Outcome {
	step := 1
	if to < from {
		step = -1
	}
	for i := from; ; i += step {
		v, _ := refEval(rules[i], p)
		switch v {
		case fwDrop:
			return c12Outcome{where: "dropped at " + names[i]}
		case fwReject:
			if p.FromService == "unreach" {
				return c12Outcome{where: "rejected at " + names[i] + " (no notice for unreach-sourced packets)"}
			}
			// the notice travels back from node i to the origin and is itself subject to the rules on its way
			n := FWPacket{FromNode: names[i], FromService: "unreach", ToNode: p.FromNode, ToService: "unreach"}
			for j := i; ; j -= step {
				nv, _ := refEval(rules[j], n)
				if nv != fwAccept {
					return c12Outcome{where: fmt.Sprintf("rejected at %s, notice stopped at %s", names[i], names[j])}
				}
				if j == from {
					break
				}
			}
			return c12Outcome{notice: true, noticeBy: names[i], where: "rejected at " + names[i]}
		}
		if i == to {
			break
		}
	}
	return c12Outcome{delivered: true, where: "delivered"}
}

func execC12Mesh(b []byte) vx.Verdict {
	var s C12Mesh
	if err := json.Unmarshal(b, &s); err != nil {
		return vx.Inconclusive("bad scenario: %v", err)
	}
	var ref [3][]refRule
	var funcs [3][]netceptor.FirewallRuleFunc
	for i := 0; i < 3; i++ {
		r := refParseRules(s.Rules[i])
		if !r.valid {
			return vx.OK(false, "mesh:rule-set-not-valid-skipped")
		}
		ref[i] = r.rules
		data := make([]netceptor.FirewallRuleData, len(s.Rules[i]))
		for k, rr := range s.Rules[i] {
			data[k] = rr.data()
		}
		f, err := netceptor.ParseFirewallRules(data)
		if err != nil {
			return vx.Violation("valid-rules-accepted", "C12/refused-valid", "valid rule set refused: %v", err)
		}
		funcs[i] = f
	}
	opts := vx.DefaultNodeOpts()
	m := vx.NewMesh(opts)
	defer m.Close()
	names := s.Names[:]
	for _, nm := range names {
		m.StartNode(nm)
	}
	var edges []vx.Edge
	for i := 0; i < 2; i++ {
		m.AddLink(&vx.Link{A: names[i], B: names[i+1], CostA: 1, CostB: 1, Spec: vx.LinkSpec{Ordered: true}})
		edges = append(edges, vx.Edge{A: names[i], B: names[i+1], Cost: 1})
	}
	exp := expectedTables(names, edges)
	if msg := vx.WaitFor(40*opts.RouteUpdate+10*time.Second, 50*time.Millisecond, func() string { return checkRouting(m, names, exp) }); msg != "" {
		return vx.Inconclusive("mesh did not converge: %s", msg)
	}
	// sockets: every node listens on every service of the list and subscribes to notices
	type sock struct {
		pc netceptor.PacketConner
	}
	var mu sync.Mutex
	delivered := map[string]int{} // "node/svc/payload"
	notices := map[string][]netceptor.UnreachableNotification{}
	socks := [3][]netceptor.PacketConner{}
	for i, nm := range names {
		for _, svc := range c12MeshSvcs {
			pc, err := m.Node(nm).N.ListenPacket(svc)
			if err != nil {
				return vx.Inconclusive("listen %s on %s: %v", svc, nm, err)
			}
			socks[i] = append(socks[i], pc)
			key := nm + "/" + svc
			done := make(chan struct{})
			defer close(done)
			ch := pc.SubscribeUnreachable(done)
			go func() {
				for n := range ch {
					mu.Lock()
					notices[key] = append(notices[key], n)
					mu.Unlock()
				}
			}()
			go func(pc netceptor.PacketConner) {
				buf := make([]byte, 2048)
				for {
					n, _, err := pc.ReadFrom(buf)
					if err != nil {
						return
					}
					mu.Lock()
					delivered[key+"/"+string(buf[:n])]++
					mu.Unlock()
				}
			}(pc)
		}
	}
	// scripted peers for forged packets (one per node that needs it), attached before the rules go in
	forgers := map[int]*vx.SessionPair{}
	for _, sd := range s.Sends {
		fi := sd.From % 3
		if sd.Forged && forgers[fi] == nil {
			be := vx.NewMemBackend()
			n := m.Node(names[fi]).N
			if err := n.AddBackend(be, netceptor.BackendConnectionCost(40)); err != nil {
				return vx.Inconclusive("add backend: %v", err)
			}
			pair := vx.NewSessionPair(vx.LinkSpec{Ordered: true}, nil)
			if !be.Offer(pair.A, 5*time.Second) {
				return vx.Inconclusive("offer failed")
			}
			go func() {
				for {
					if _, err := pair.B.Recv(time.Second); err != nil && err != netceptor.ErrTimeout {
						return
					}
				}
			}()
			pid := fmt.Sprintf("zzforger%d", fi)
			_ = pair.B.Send(vx.EncodeRoute(&vx.RoutingUpdate{NodeID: pid, UpdateID: "hs" + pid, UpdateEpoch: 3 << 24, UpdateSequence: 1,
				Connections: map[string]float64{names[fi]: 40}, ForwardingNode: pid}))
			vx.WaitFor(10*time.Second, 5*time.Millisecond, func() string {
				for _, c := range n.Status().Connections {
					if c.NodeID == pid {
						return ""
					}
				}
				return "x"
			})
			forgers[fi] = pair
		}
	}
	time.Sleep(2 * opts.RouteUpdate)
	for i, nm := range names {
		_ = m.Node(nm).N.AddFirewallRules(funcs[i], true)
	}
	type expect struct {
		key     string // delivery key
		nkey    string // socket that must get the notice
		out     c12Outcome
		p       FWPacket
		payload string
	}
	var exps []expect
	labels := []string{}
	placement := map[string]bool{}
	for si, sd := range s.Sends {
		fi, ti := sd.From%3, sd.To%3
		fs, ts := c12MeshSvcs[sd.FromSvc%len(c12MeshSvcs)], c12MeshSvcs[sd.ToSvc%len(c12MeshSvcs)]
		if sd.Forged {
			fs = "unreach"
		}
		p := FWPacket{FromNode: names[fi], FromService: fs, ToNode: names[ti], ToService: ts}
		payload := fmt.Sprintf("pkt-%d", si)
		out := c12Model(s.Names, ref, p, fi, ti)
		exps = append(exps, expect{key: names[ti] + "/" + ts + "/" + payload, nkey: names[fi] + "/" + fs, out: out, p: p, payload: payload})
		if sd.Forged {
			_ = forgers[fi].B.Send(vx.EncodeData(names[fi], "unreach", names[ti], ts, 20, []byte(payload)))
			labels = append(labels, "forged-unreach-source")
		} else {
			pc := socks[fi][sd.FromSvc%len(c12MeshSvcs)]
			if _, err := pc.WriteTo([]byte(payload), m.Node(names[fi]).N.NewAddr(names[ti], ts)); err != nil {
				return vx.Violation("send", "C12/write-error", "send %d %+v: %v", si, p, err)
			}
		}
		switch {
		case out.delivered:
			labels = append(labels, "outcome:delivered")
		case out.notice:
			labels = append(labels, "outcome:rejected-with-notice")
		default:
			labels = append(labels, "outcome:silent")
		}
		if !out.delivered {
			// where was it decided: origin, transit or destination
			for i, nm := range names {
				if out.where == "dropped at "+nm || (len(out.where) >= len("rejected at "+nm) && out.where[:len("rejected at "+nm)] == "rejected at "+nm) {
					switch {
					case i == fi:
						placement["origin"] = true
					case i == ti:
						placement["destination"] = true
					default:
						placement["transit"] = true
					}
				}
			}
		}
	}
	// positives
	msg := vx.WaitFor(20*time.Second, 10*time.Millisecond, func() string {
		mu.Lock()
		defer mu.Unlock()
		for _, e := range exps {
			if e.out.delivered && delivered[e.key] == 0 {
				return fmt.Sprintf("packet %+v must be delivered (first match says accept at every node) but was not", e.p)
			}
			if e.out.notice {
				found := false
				for _, n := range notices[e.nkey] {
					if n.Problem == netceptor.ProblemRejected && n.ToNode == e.p.ToNode && n.ToService == e.p.ToService && n.ReceivedFromNode == e.out.noticeBy {
						found = true
					}
				}
				if !found {
					return fmt.Sprintf("packet %+v must be rejected at %s with a 'blocked by firewall' notice to its source, none arrived (notices at that socket: %+v)", e.p, e.out.noticeBy, notices[e.nkey])
				}
			}
		}
		return ""
	})
	if msg != "" {
		return vx.Violation("first-match-decides-everywhere", "C12/mesh-missing", "%s", msg)
	}
	time.Sleep(400 * time.Millisecond)
	mu.Lock()
	defer mu.Unlock()
	for _, e := range exps {
		if !e.out.delivered && delivered[e.key] > 0 {
			return vx.CertainViolation("first-match-decides-everywhere", "C12/mesh-delivered-although-blocked", "packet %+v was delivered although the rules say: %s", e.p, e.out.where)
		}
		if delivered[e.key] > 1 {
			return vx.CertainViolation("first-match-decides-everywhere", "C12/mesh-duplicate", "packet %+v delivered %d times", e.p, delivered[e.key])
		}
	}
	// notices nobody should get
	wantNotices := map[string]int{}
	for _, e := range exps {
		if e.out.notice {
			wantNotices[e.nkey+"|"+e.p.ToNode+"|"+e.p.ToService]++
		}
	}
	for k, ns := range notices {
		for _, n := range ns {
			kk := k + "|" + n.ToNode + "|" + n.ToService
			if n.Problem == netceptor.ProblemRejected {
				if wantNotices[kk] == 0 {
					return vx.CertainViolation("first-match-decides-everywhere", "C12/mesh-unexpected-notice", "socket %s got a 'blocked by firewall' notice %+v that the rules do not produce", k, n)
				}
				wantNotices[kk]--
			}
		}
	}
	var pl []string
	for k := range placement {
		pl = append(pl, "decided-at:"+k)
	}
	sort.Strings(pl)
	labels = append(labels, pl...)
	return vx.OK(len(placement) >= 1, dedup(labels)...)
}

func init() { vx.Register("C12.mesh", execC12Mesh) }
