package netprops

import (
	"context"
	"encoding/json"
	"fmt"
	"io"
	"runtime"
	"sort"
	"strings"
	"sync"
	"time"

	"github.com/ansible/receptor/pkg/netceptor"

	"verifharness/vx"
)

// ---- scenario ----------------------------------------------------------------------------------------

type C17Op struct {
	K string `json:"k"`
	A int    `json:"a,omitempty"`
	B int    `json:"b,omitempty"`
	C int    `json:"c,omitempty"`
}

type C17Scn struct {
	N      int     `json:"n"`      // 2 or 3 nodes in a chain
	Rounds int     `json:"rounds"` // the op list is executed this many times on the same mesh (1..3)
	Ops    []C17Op `json:"ops"`
	// Persist: one stream listener on the second node stays open through all rounds (everything else is closed at the end of each
	// round): what a finished connection leaves behind on a listener that lives on shows up as growth from round to round
	Persist bool `json:"persist,omitempty"`
}

type c17Sock struct {
	node string
	name string
	pc   netceptor.PacketConner
}

type c17Lis struct {
	node string
	name string
	li   *netceptor.Listener
}

type c17Dial struct {
	eph  string // ephemeral service of the dialling socket
	node string
	mode int
	conn *netceptor.Conn
}

func receptorGoroutines() (int, map[string]int) {
	buf := make([]byte, 8<<20)
	n := runtime.Stack(buf, true)
	count := 0
	tops := map[string]int{}
	for _, g := range strings.Split(string(buf[:n]), "\n\n") {
		if !strings.Contains(g, "ansible/receptor/pkg") && !strings.Contains(g, "quic-go") {
			continue
		}
		count++
		top := "?"
		for _, l := range strings.Split(g, "\n") {
			l = strings.TrimSpace(l)
			if strings.HasPrefix(l, "github.com/ansible/receptor/pkg") || strings.HasPrefix(l, "github.com/quic-go/quic-go") {
				if i := strings.LastIndex(l, "("); i > 0 {
					l = l[:i]
				}
				top = l[strings.LastIndex(l, "/")+1:]
				break
			}
		}
		tops[top]++
	}
	return count, tops
}

func execC17(b []byte) vx.Verdict {
	var s C17Scn
	if err := json.Unmarshal(b, &s); err != nil {
		return vx.Inconclusive("bad scenario: %v", err)
	}
	if s.N < 2 {
		s.N = 2
	}
	if s.Rounds < 1 {
		s.Rounds = 1
	}
	netceptor.MaxIdleTimeoutForQuicConnections = 2 * time.Second
	opts := vx.DefaultNodeOpts()
	m := vx.NewMesh(opts)
	names := make([]string, s.N)
	for i := range names {
		names[i] = nodeName(i)
		m.StartNode(names[i])
	}
	var edges []vx.Edge
	for i := 0; i+1 < s.N; i++ {
		m.AddLink(&vx.Link{A: names[i], B: names[i+1], CostA: 1, CostB: 1, Spec: vx.LinkSpec{Ordered: true}})
		edges = append(edges, vx.Edge{A: names[i], B: names[i+1], Cost: 1})
	}
	exp := expectedTables(names, edges)
	if msg := vx.WaitFor(40*opts.RouteUpdate+10*time.Second, 50*time.Millisecond, func() string { return checkRouting(m, names, exp) }); msg != "" {
		m.Close()
		return vx.Inconclusive("mesh did not converge: %s", msg)
	}
	node := func(i int) *netceptor.Netceptor { return m.Node(names[((i%s.N)+s.N)%s.N]).N }
	labels := []string{fmt.Sprintf("nodes=%d", s.N), fmt.Sprintf("rounds=%d", s.Rounds)}
	var socks []*c17Sock
	var lis []*c17Lis
	var dials []*c17Dial
	var closedDials []*c17Dial
	ctr := 0
	knownNotes := map[string]int{}
	closedFromBothSides, closeWithTraffic := false, false

	// guarded runs a close-like call with a watchdog (R7); "" when it returned
	guarded := func(what string, f func()) *vx.Verdict {
		if vx.WithDeadline(20*time.Second, f) {
			return nil
		}
		sig := "C17/close-blocked:" + what
		if vx.IsKnown("C17", sig) {
			knownNotes[sig]++
			return nil
		}
		_, tops := receptorGoroutines()
		v := vx.Violation("close-returns", sig, "%s did not return within 20 s; receptor/quic goroutines by top frame: %v", what, tops)
		return &v
	}
	// opGuard: opening a socket or listener and pinging must return as well (a node whose internal locks are held by a wedged
	// goroutine shows here first)
	opGuard := func(what string, f func()) *vx.Verdict {
		if vx.WithDeadline(25*time.Second, f) {
			return nil
		}
		_, tops := receptorGoroutines()
		v := vx.Violation("operations-return", "C17/op-blocked:"+what, "%s did not return within 25 s; receptor/quic goroutines by top frame: %v", what, tops)
		return &v
	}
	registry := func(n *netceptor.Netceptor) []string {
		var keys []string
		done := vx.WithDeadline(5*time.Second, func() {
			n.GetListenerLock().RLock()
			for k := range n.GetListenerRegistry() {
				keys = append(keys, k)
			}
			n.GetListenerLock().RUnlock()
		})
		if !done {
			return []string{"<listener lock held>"}
		}
		sort.Strings(keys)
		return keys
	}
	var keepLis *c17Lis // the listener that stays open through all rounds (Persist)
	// settle: registries equal the model; returns residue description by class
	settle := func(final bool) *vx.Verdict {
		var residue map[string][]string
		msg := vx.WaitFor(40*time.Second, 100*time.Millisecond, func() string {
			residue = map[string][]string{}
			for _, nm := range names {
				want := map[string]string{}
				for _, sk := range socks {
					if sk.node == nm {
						want[sk.name] = "socket"
					}
				}
				for _, l := range lis {
					if l.node == nm {
						want[l.name] = "listener"
					}
				}
				if keepLis != nil && keepLis.node == nm {
					want[keepLis.name] = "listener"
				}
				for _, d := range dials {
					if d.node == nm {
						want[d.eph] = "open-dial"
					}
				}
				have := registry(m.Node(nm).N)
				for _, k := range have {
					if _, ok := want[k]; ok {
						delete(want, k)
						continue
					}
					class := "unknown-service"
					if k == "<listener lock held>" {
						class = "listener-lock-held"
					}
					for _, d := range closedDials {
						if d.node == nm && d.eph == k {
							class = fmt.Sprintf("socket-of-closed-dial(mode=%d)", d.mode)
						}
					}
					residue[class] = append(residue[class], nm+":"+k)
				}
				for k, kind := range want {
					residue["missing-"+kind] = append(residue["missing-"+kind], nm+":"+k)
				}
			}
			if len(residue) == 0 {
				return ""
			}
			return "residue"
		})
		if msg == "" {
			return nil
		}
		var classes []string
		for c := range residue {
			classes = append(classes, c)
		}
		sort.Strings(classes)
		for _, c := range classes {
			sig := "C17/not-released:" + c
			if vx.IsKnown("C17", sig) {
				knownNotes[sig] += len(residue[c])
				continue
			}
			v := vx.Violation("released", sig, "40 s after the operations ended the listener registry still differs from what is open: %s %v (all residue %v)", c, residue[c], residue)
			return &v
		}
		return nil
	}

	echoHandler := func(c *netceptor.Conn) {
		buf := make([]byte, 4096)
		mode := -1
		for {
			n, err := c.Read(buf)
			if n > 0 {
				if mode < 0 {
					mode = int(buf[0])
				}
				_, _ = c.Write(buf[:n])
				if mode == 5 && n == 1 && buf[0] == 'c' {
					// the dialler has told its stream to stop being sent to (CancelRead); the acceptor now closes its side the
					// ordinary way - Close only, as workceptor does for remote work
					time.Sleep(20 * time.Millisecond)
					_ = c.Close()
					return
				}
				if mode == 2 {
					// the acceptor ends the connection first
					time.Sleep(20 * time.Millisecond)
					_ = c.CloseConnection()
					return
				}
			}
			if err != nil {
				_ = c.Close()
				if mode == 1 || mode == 0 {
					_ = c.CloseConnection()
				}
				return
			}
		}
	}

	var verdict *vx.Verdict
	goroutinesAfter := []int{}
	var topsAfter []map[string]int
	// closeAll closes everything that is still open (end of every round: each round starts and ends with nothing open,
	// so whatever remains afterwards grows with history)
	closeAll := func() {
		for _, d := range dials {
			d := d
			if v := guarded("Conn.CloseConnection(final)", func() { _ = d.conn.Close(); _ = d.conn.CloseConnection() }); v != nil && verdict == nil {
				verdict = v
			}
			closedDials = append(closedDials, d)
		}
		dials = nil
		for _, sk := range socks {
			sk := sk
			if v := guarded("PacketConn.Close(final)", func() { _ = sk.pc.Close() }); v != nil && verdict == nil {
				verdict = v
			}
		}
		socks = nil
		for _, l := range lis {
			l := l
			if v := guarded("Listener.Close", func() { _ = l.li.Close() }); v != nil && verdict == nil {
				verdict = v
			}
		}
		lis = nil
	}
	if s.Persist {
		n := node(1)
		li, err := n.Listen("keep", nil)
		if err != nil {
			return vx.Inconclusive("persistent listener: %v", err)
		}
		keepLis = &c17Lis{n.NodeID(), "keep", li}
		go func() {
			for {
				c, err := li.Accept()
				if err != nil {
					if strings.Contains(err.Error(), "listener closed") {
						return
					}
					continue
				}
				go echoHandler(c.(*netceptor.Conn))
			}
		}()
		labels = append(labels, "persistent-listener")
	}
	for round := 0; round < s.Rounds && verdict == nil; round++ {
		for oi, op := range s.Ops {
			if verdict != nil {
				break
			}
			switch op.K {
			case "lp":
				n := node(op.A)
				name := fmt.Sprintf("p%d", op.B%4)
				exists := false
				for _, sk := range socks {
					if sk.node == n.NodeID() && sk.name == name {
						exists = true
					}
				}
				if exists {
					continue
				}
				var pc netceptor.PacketConner
				var err error
				if v := opGuard("ListenPacket", func() {
					if op.C%2 == 1 {
						pc, err = n.ListenPacketAndAdvertise(name, map[string]string{"t": "x"})
					} else {
						pc, err = n.ListenPacket(name)
					}
				}); v != nil {
					verdict = v
					continue
				}
				if err != nil {
					v := vx.Violation("reopen", "C17/name-not-reusable", "round %d op %d: ListenPacket(%s) on %s failed although the name is free in the model: %v", round, oi, name, n.NodeID(), err)
					verdict = &v
					continue
				}
				socks = append(socks, &c17Sock{n.NodeID(), name, pc})
				go func() {
					buf := make([]byte, 2048)
					for {
						if _, _, err := pc.ReadFrom(buf); err != nil {
							return
						}
					}
				}()
			case "lpclose":
				if len(socks) == 0 {
					continue
				}
				k := op.A % len(socks)
				sk := socks[k]
				socks = append(socks[:k], socks[k+1:]...)
				times := 1 + op.B%2
				what := "PacketConn.Close"
				if times == 2 {
					what = "PacketConn.Close(twice)"
					labels = append(labels, "double-close")
				}
				verdict = guarded(what, func() {
					for i := 0; i < times; i++ {
						_ = sk.pc.Close()
					}
				})
			case "unread":
				n, other := node(op.A), node(op.A+1)
				ctr++
				name := fmt.Sprintf("u%d", ctr)
				pc, err := n.ListenPacket(name)
				if err != nil {
					continue
				}
				sp, err := other.ListenPacket("")
				if err != nil {
					_ = pc.Close()
					continue
				}
				mm := 1 + op.B%3
				// deliveries park one per source path: one from the neighbour (its session loop blocks on the hand-over) and
				// mm-1 from sockets on the same node (their WriteTo blocks on the hand-over)
				_, _ = sp.WriteTo([]byte("x"), other.NewAddr(n.NodeID(), name))
				var lwg sync.WaitGroup
				for i := 1; i < mm; i++ {
					lp, err := n.ListenPacket("")
					if err != nil {
						continue
					}
					lwg.Add(1)
					go func() {
						defer lwg.Done()
						defer lp.Close()
						_, _ = lp.WriteTo([]byte("y"), n.NewAddr(n.NodeID(), name))
					}()
				}
				defer func() {
					if !vx.WithDeadline(20*time.Second, lwg.Wait) && verdict == nil {
						v := vx.Violation("close-returns", "C17/local-senders-blocked", "WriteTo of same-node senders to a closed socket is still blocked after 20 s")
						verdict = &v
					}
				}()
				time.Sleep(50 * time.Millisecond) // the deliveries are now parked on the socket nobody reads
				labels = append(labels, fmt.Sprintf("close-with-%d-parked-deliveries", mm))
				verdict = guarded("PacketConn.Close(parked deliveries)", func() { _ = pc.Close() })
				_ = sp.Close()
				closeWithTraffic = true
			case "blast":
				n, other := node(op.A), node(op.A+1)
				ctr++
				name := fmt.Sprintf("b%d", ctr)
				pc, err := n.ListenPacket(name)
				if err != nil {
					continue
				}
				go func() {
					buf := make([]byte, 2048)
					for {
						if _, _, err := pc.ReadFrom(buf); err != nil {
							return
						}
					}
				}()
				senders := 1 + op.B%4
				var wg sync.WaitGroup
				stop := make(chan struct{})
				for i := 0; i < senders; i++ {
					sp, err := other.ListenPacket("")
					if err != nil {
						continue
					}
					wg.Add(1)
					go func() {
						defer wg.Done()
						defer sp.Close()
						for j := 0; j < 300; j++ {
							select {
							case <-stop:
								return
							default:
							}
							_, _ = sp.WriteTo([]byte("blast"), other.NewAddr(n.NodeID(), name))
						}
					}()
				}
				time.Sleep(time.Duration(op.C%20) * time.Millisecond)
				verdict = guarded("PacketConn.Close(under traffic)", func() { _ = pc.Close() })
				close(stop)
				if !vx.WithDeadline(20*time.Second, wg.Wait) && verdict == nil {
					v := vx.Violation("close-returns", "C17/senders-blocked", "senders to a socket closed under traffic are still blocked after 20 s")
					verdict = &v
				}
				closeWithTraffic = true
				labels = append(labels, "close-under-traffic")
			case "listen":
				n := node(op.A)
				ctr++
				name := fmt.Sprintf("l%d", ctr) // a fresh name every time (see DESIGN: re-listening on a just-closed stream service)
				var li *netceptor.Listener
				var err error
				if v := opGuard("Listen", func() { li, err = n.Listen(name, nil) }); v != nil {
					verdict = v
					continue
				}
				if err != nil {
					v := vx.Violation("listen", "C17/listen-failed", "Listen(%s) on %s: %v", name, n.NodeID(), err)
					verdict = &v
					continue
				}
				l := &c17Lis{n.NodeID(), name, li}
				lis = append(lis, l)
				go func() {
					for {
						c, err := li.Accept()
						if err != nil {
							if strings.Contains(err.Error(), "listener closed") {
								return
							}
							continue
						}
						go echoHandler(c.(*netceptor.Conn))
					}
				}()
			case "lclose":
				if len(lis) == 0 {
					continue
				}
				k := op.A % len(lis)
				l := lis[k]
				lis = append(lis[:k], lis[k+1:]...)
				verdict = guarded("Listener.Close", func() { _ = l.li.Close() })
				labels = append(labels, "listener-close")
			case "dial":
				cands := lis
				if keepLis != nil {
					cands = append([]*c17Lis{keepLis, keepLis}, lis...) // the listener that lives on takes most of the connections
				}
				if len(cands) == 0 {
					continue
				}
				l := cands[op.B%len(cands)]
				from := node(op.A)
				if from.NodeID() == l.node {
					from = node(op.A + 1)
				}
				mode := op.C % 6
				ctx, cancel := context.WithTimeout(context.Background(), 30*time.Second)
				var conn *netceptor.Conn
				var err error
				if !vx.WithDeadline(40*time.Second, func() { conn, err = from.DialContext(ctx, l.node, l.name, nil) }) {
					cancel()
					v := vx.Violation("close-returns", "C17/dial-blocked", "DialContext did not return 10 s after its context expired")
					verdict = &v
					continue
				}
				cancel()
				if err != nil {
					v := vx.Violation("dial", "C17/dial-failed", "round %d op %d: dial %s -> %s:%s failed: %v", round, oi, from.NodeID(), l.node, l.name, err)
					verdict = &v
					continue
				}
				eph := conn.LocalAddr().String()
				eph = eph[strings.LastIndex(eph, ":")+1:]
				d := &c17Dial{eph: eph, node: from.NodeID(), mode: mode, conn: conn}
				// one echo round trip
				_ = conn.SetDeadline(time.Now().Add(15 * time.Second))
				msg := []byte{byte(mode), 'h', 'i'}
				if _, err := conn.Write(msg); err == nil {
					buf := make([]byte, 3)
					_, _ = io.ReadFull(conn, buf)
				}
				switch mode {
				case 0: // dialler half-closes, acceptor answers with close + CloseConnection
					verdict = guarded("Conn.Close", func() { _ = conn.Close() })
					closedDials = append(closedDials, d)
					closedFromBothSides = true
				case 1:
					verdict = guarded("Conn.CloseConnection", func() { _ = conn.CloseConnection() })
					closedDials = append(closedDials, d)
				case 2: // the acceptor closes the connection; then the dialler closes too
					time.Sleep(100 * time.Millisecond)
					verdict = guarded("Conn.Close(after peer closed)", func() { _ = conn.Close(); _ = conn.CloseConnection() })
					closedDials = append(closedDials, d)
					closedFromBothSides = true
				case 3: // close twice
					verdict = guarded("Conn.Close(twice)+CloseConnection", func() { _ = conn.Close(); _ = conn.Close(); _ = conn.CloseConnection(); _ = conn.CloseConnection() })
					closedDials = append(closedDials, d)
				case 4:
					dials = append(dials, d)
				case 5: // the dialler cancels reading (STOP_SENDING reaches the acceptor), the acceptor closes, then the dialler
					conn.CancelRead()
					_, _ = conn.Write([]byte{'c'})
					time.Sleep(150 * time.Millisecond)
					verdict = guarded("Conn.Close+CloseConnection(after CancelRead)", func() { _ = conn.Close(); _ = conn.CloseConnection() })
					closedDials = append(closedDials, d)
					closedFromBothSides = true
				}
				labels = append(labels, fmt.Sprintf("dial-mode-%d", mode))
			case "dialbad":
				from := node(op.A)
				to := node(op.A + 1)
				ctx, cancel := context.WithTimeout(context.Background(), 20*time.Second)
				var err error
				var conn *netceptor.Conn
				switch op.B % 3 {
				case 0:
					vx.WithDeadline(30*time.Second, func() { conn, err = from.DialContext(ctx, to.NodeID(), "nosuchsv", nil) })
					labels = append(labels, "dial-unbound")
				case 1:
					vx.WithDeadline(30*time.Second, func() { conn, err = from.DialContext(ctx, "no-such-node", "svc", nil) })
					labels = append(labels, "dial-no-route")
				case 2:
					if len(lis) > 0 {
						l := lis[op.C%len(lis)]
						cctx, ccancel := context.WithCancel(ctx)
						go func() { time.Sleep(time.Duration(op.C%5) * time.Millisecond); ccancel() }()
						vx.WithDeadline(30*time.Second, func() { conn, err = node(op.A).DialContext(cctx, l.node, l.name, nil) })
						ccancel()
						labels = append(labels, "dial-cancelled")
					}
				}
				cancel()
				if err == nil && conn != nil {
					_ = conn.CloseConnection()
					eph := conn.LocalAddr().String()
					closedDials = append(closedDials, &c17Dial{eph: eph[strings.LastIndex(eph, ":")+1:], node: from.NodeID(), mode: 1})
				}
			case "ping":
				from := node(op.A)
				ctx, cancel := context.WithTimeout(context.Background(), 5*time.Second)
				switch op.B % 3 {
				case 0:
					verdict = opGuard("Ping", func() { _, _, _ = from.Ping(ctx, node(op.A+1).NodeID(), 10) })
				case 1:
					verdict = opGuard("Ping(unknown node)", func() { _, _, _ = from.Ping(ctx, "no-such-node", 10) })
				case 2:
					cctx, ccancel := context.WithCancel(ctx)
					ccancel()
					verdict = opGuard("Ping(cancelled)", func() { _, _, _ = from.Ping(cctx, node(op.A+1).NodeID(), 10) })
				}
				cancel()
				labels = append(labels, "ping")
			}
		}
		if verdict == nil {
			verdict = settle(false)
		}
		if verdict == nil {
			closeAll()
		}
		if verdict == nil {
			verdict = settle(true)
		}
		time.Sleep(500 * time.Millisecond)
		c, tops := receptorGoroutines()
		goroutinesAfter = append(goroutinesAfter, c)
		topsAfter = append(topsAfter, tops)
	}
	// ---- resource use must not grow with the number of past connections
	if verdict == nil && len(knownNotes) == 0 && len(goroutinesAfter) >= 3 {
		if goroutinesAfter[len(goroutinesAfter)-1] > goroutinesAfter[0]+4 {
			grown := map[string]int{}
			last, first := topsAfter[len(topsAfter)-1], topsAfter[0]
			for k, n := range last {
				if n > first[k] {
					grown[k] = n - first[k]
				}
			}
			var gk []string
			for k := range grown {
				gk = append(gk, k)
			}
			sort.Strings(gk)
			sig := "C17/goroutines-grow:" + strings.Join(gk, ",")
			if len(sig) > 200 {
				sig = sig[:200]
			}
			v := vx.Violation("no-growth", sig, "receptor/quic goroutines after each round (everything closed at the end of every round): %v; growth by top frame between round 1 and the last: %v", goroutinesAfter, grown)
			verdict = &v
		}
	}
	if keepLis != nil && verdict == nil {
		verdict = guarded("Listener.Close", func() { _ = keepLis.li.Close() })
	}
	// ---- shutdown stops all background activity
	if verdict == nil {
		for _, nm := range names {
			n := m.Node(nm).N
			vx.WithDeadline(10*time.Second, n.Shutdown)
		}
		m.Close()
		left := 0
		var tops map[string]int
		vx.WaitFor(15*time.Second, 200*time.Millisecond, func() string {
			left, tops = receptorGoroutines()
			if left == 0 {
				return ""
			}
			return "goroutines left"
		})
		if left > 0 {
			var keys []string
			for k := range tops {
				keys = append(keys, k)
			}
			sort.Strings(keys)
			sig := "C17/goroutines-after-shutdown:" + strings.Join(keys, ",")
			if len(sig) > 160 {
				sig = sig[:160]
			}
			if vx.IsKnown("C17", sig) || len(knownNotes) > 0 {
				knownNotes["goroutines-after-shutdown(with known residue)"] += left
			} else {
				v := vx.Violation("shutdown-stops-everything", sig, "15 s after Shutdown of all nodes %d receptor/quic goroutines are still alive, by top frame: %v", left, tops)
				verdict = &v
			}
		}
	} else {
		m.Close()
	}
	if verdict != nil {
		return *verdict
	}
	for k, n := range knownNotes {
		labels = append(labels, fmt.Sprintf("known:%s", k))
		_ = n
	}
	anyDial := len(closedDials) > 0
	otherClose := closeWithTraffic
	for _, l := range labels {
		if l == "double-close" || l == "listener-close" {
			otherClose = true
		}
	}
	_ = closedFromBothSides
	v := vx.OK(anyDial && otherClose, dedup(labels)...)
	for k, n := range knownNotes {
		v.Notes = append(v.Notes, fmt.Sprintf("%s x%d", k, n))
	}
	return v
}

func init() { vx.Register("C17", execC17) }
