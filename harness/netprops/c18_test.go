package netprops

import (
	"testing"
	"time"

	"pgregory.net/rapid"

	"verifharness/vx"
)

func TestC18(t *testing.T) {
	st := vx.NewStats("C18", "model", "one real node with 1-3 scripted peers; 1-20 deliveries of advertisements / withdrawals for 4 (node, service) keys with timestamps from an ordered set of 8 "+
		"(even = advertisement, odd = withdrawal, so the two never share a timestamp), any order, any link, duplicates; model = greatest timestamp seen per key; oracle after every delivery: the node lists the "+
		"key iff that message is an advertisement, with its time, type and tags; newer messages are passed on; non-trivial = an older advertisement follows a withdrawal or a newer advertisement, or an older "+
		"withdrawal follows a newer advertisement, or the node's own older advertisement is delivered to it by a neighbour after it closed the service (one case in four); distinct by canonical JSON")
	defer st.Flush()
	r := &vx.Runner{Name: "C18", Timeout: 120 * time.Second, Recycle: 200}
	defer r.Close()
	rapid.Check(t, func(t *rapid.T) {
		s := C18Scn{NPeers: rapid.IntRange(1, 3).Draw(t, "npeers")}
		n := rapid.IntRange(1, 20).Draw(t, "n")
		for i := 0; i < n; i++ {
			s.Deliveries = append(s.Deliveries, C18Delivery{Link: rapid.IntRange(0, 2).Draw(t, "link"), Key: rapid.SampledFrom([]int{0, 0, 0, 1, 2, 3}).Draw(t, "key"), T: rapid.IntRange(0, 7).Draw(t, "t")})
		}
		if rapid.IntRange(0, 3).Draw(t, "ownecho") == 0 {
			s.OwnEcho = rapid.IntRange(1, 2).Draw(t, "ownechon")
		}
		st.Judge(t, s, r.Run(s))
	})
}

func TestC18Mesh(t *testing.T) {
	st := vx.NewStats("C18", "mesh", "real in-process meshes of 2-5 nodes (spanning tree + extra edges = cycles, ordered links with drawn delays), 0-2 nodes joining late; 1-12 events "+
		"{open advertised datagram / stream / TLS-stream listener with tags, close one, close one while re-opening the same service concurrently, open 60-180 services on one node and close them across one advertisement period, join} at drawn gaps; oracle: within 40 ad periods + 8 s every node lists exactly the open advertised services of all nodes "+
		"with type and tags, and still does three periods later; non-trivial = >= 1 close and a late joiner; distinct by canonical JSON")
	defer st.Flush()
	r := &vx.Runner{Name: "C18.mesh", Timeout: 150 * time.Second, Recycle: 30}
	defer r.Close()
	rapid.Check(t, func(t *rapid.T) {
		n := rapid.IntRange(2, 5).Draw(t, "n")
		s := C18Mesh{N: n}
		for _, e := range genGraph(t, n, n, false) {
			s.Links = append(s.Links, C01Link{A: e[0], B: e[1], Cost4: 4, DelAB: genDelays(t, "dab"), DelBA: genDelays(t, "dba")})
		}
		s.Late = rapid.SliceOfN(rapid.IntRange(0, n-1), 0, 2).Draw(t, "late")
		ne := rapid.IntRange(1, 12).Draw(t, "nev")
		for i := 0; i < ne; i++ {
			s.Events = append(s.Events, C18Event{K: rapid.SampledFrom([]string{"open", "open", "open", "open", "close", "close", "join", "reopen", "reopen", "storm", "storm"}).Draw(t, "k"),
				Node: rapid.IntRange(0, n-1).Draw(t, "node"), Svc: rapid.IntRange(0, 2).Draw(t, "svc"), Kind: rapid.SampledFrom([]int{0, 0, 0, 1, 3}).Draw(t, "kind"),
				Tags: rapid.IntRange(0, 3).Draw(t, "tags"), GapMs: rapid.SampledFrom([]int{0, 0, 20, 100, 350}).Draw(t, "gap")})
		}
		st.Judge(t, s, r.Run(s))
	})
}
