package netprops

import (
	"context"
	"encoding/json"
	"fmt"
	"github.com/ansible/receptor/pkg/logger"
	"io"
	"net"
	"strings"
	"sync"
	"sync/atomic"
	"time"

	"github.com/ansible/receptor/pkg/netceptor"
	"github.com/ansible/receptor/pkg/services"

	"verifharness/vx"
)

// ---- scenario ----------------------------------------------------------------------------------------

type C03Link struct {
	AB []vx.Fault `json:"ab,omitempty"`
	BA []vx.Fault `json:"ba,omitempty"`
}

type C03Scn struct {
	Hops    int       `json:"hops"`   // 1..4 links on the main path n0 - n1 - ... - nH
	Detour  bool      `json:"detour"` // a costlier alternative n0 - x - nH exists
	Links   []C03Link `json:"links"`  // fault programmes of the main path links (cycled)
	Class   string    `json:"class"`  // clean | lossless (dup/delay/reorder only) | light (<=3% drop) | stress (<=10% drop)
	WritesA []int     `json:"wa"`     // write sizes of the dialling side
	WritesB []int     `json:"wb"`     // write sizes of the accepting side
	ReadA   []int     `json:"ra"`     // read buffer sizes (cycled)
	ReadB   []int     `json:"rb"`
	Mode    string    `json:"mode"`             // direct | proxy (TCP client -> inbound proxy -> mesh stream -> outbound proxy -> TCP server)
	Shape   string    `json:"shape"`            // duplex (both write at once, each closes after writing) | pingpong (B writes after it has read all of A)
	CutAt   int       `json:"cut_at,omitempty"` // with a detour: cut main-path link (CutLink) once the acceptor has read this many bytes (0 = never)
	CutLink int       `json:"cut_link,omitempty"`
	// Twin: a second connection of the same kind (same service / same proxy) opened at the same moment as the main one, carrying its
	// own two byte sequences; the accepting side tells the two apart by the first byte of the dialler's stream
	Twin  bool  `json:"twin,omitempty"`
	TwinA []int `json:"twa,omitempty"`
	TwinB []int `json:"twb,omitempty"`
}

// lockedBuf collects log output of several goroutines.
type lockedBuf struct {
	mu sync.Mutex
	b  []byte
}

func (l *lockedBuf) Write(p []byte) (int, error) {
	l.mu.Lock()
	if len(l.b) < 1<<20 {
		l.b = append(l.b, p...)
	}
	l.mu.Unlock()
	return len(p), nil
}

// tail returns the last error lines (at most n bytes).
func (l *lockedBuf) tail(n int) string {
	l.mu.Lock()
	defer l.mu.Unlock()
	var keep []string
	for _, line := range strings.Split(string(l.b), "\n") {
		if strings.Contains(line, "ERROR") {
			keep = append(keep, strings.TrimSpace(line))
		}
	}
	out := strings.Join(keep, " / ")
	if len(out) > n {
		out = out[len(out)-n:]
	}
	return out
}

// prefixedConn gives back the bytes that were read ahead to identify a connection.
type prefixedConn struct {
	io.ReadWriteCloser
	pre []byte
}

func (p *prefixedConn) Read(b []byte) (int, error) {
	if len(p.pre) > 0 {
		n := copy(b, p.pre)
		p.pre = p.pre[n:]
		return n, nil
	}
	return p.ReadWriteCloser.Read(b)
}

func c03Byte(dir int, i int64) byte { return byte(i*131 + i>>8*7 + i>>16 + int64(dir)*97) }

type c03Reader struct {
	total int64
	bad   int64 // first differing offset, -1 none
	eof   bool
	err   error
	done  chan struct{}
}

// readAll reads until EOF/error (or until want bytes when stopAt >= 0), checking every byte against the expected stream.
func readAll(r io.Reader, dir int, bufs []int, stopAt int64, progress *int64) *c03Reader {
	res := &c03Reader{bad: -1, done: make(chan struct{})}
	go func() {
		defer close(res.done)
		k := 0
		for {
			if stopAt >= 0 && res.total >= stopAt {
				return
			}
			sz := 4096
			if len(bufs) > 0 {
				sz = bufs[k%len(bufs)]
				k++
			}
			if sz < 1 {
				sz = 1
			}
			buf := make([]byte, sz)
			n, err := r.Read(buf)
			for i := 0; i < n; i++ {
				if buf[i] != c03Byte(dir, res.total+int64(i)) && res.bad < 0 {
					res.bad = res.total + int64(i)
				}
			}
			res.total += int64(n)
			if progress != nil {
				atomic.StoreInt64(progress, res.total)
			}
			if err != nil {
				if err == io.EOF {
					res.eof = true
				} else {
					res.err = err
				}
				return
			}
		}
	}()
	return res
}

func writeAll(w io.Writer, dir int, sizes []int) (int64, error) {
	var off int64
	for _, sz := range sizes {
		b := make([]byte, sz)
		for i := range b {
			b[i] = c03Byte(dir, off+int64(i))
		}
		n, err := w.Write(b)
		off += int64(n)
		if err != nil {
			return off, err
		}
		if n != sz {
			return off, fmt.Errorf("short write %d of %d", n, sz)
		}
	}
	return off, nil
}

func sumInts(xs []int) int64 {
	var s int64
	for _, x := range xs {
		s += int64(x)
	}
	return s
}

func freePort() int {
	l, err := net.Listen("tcp", "127.0.0.1:0")
	if err != nil {
		return 0
	}
	defer l.Close()
	return l.Addr().(*net.TCPAddr).Port
}

func execC03(b []byte) vx.Verdict {
	var s C03Scn
	if err := json.Unmarshal(b, &s); err != nil {
		return vx.Inconclusive("bad scenario: %v", err)
	}
	if s.Hops < 1 {
		s.Hops = 1
	}
	opts := vx.DefaultNodeOpts()
	m := vx.NewMesh(opts)
	defer m.Close()
	names := []string{}
	for i := 0; i <= s.Hops; i++ {
		names = append(names, nodeName(i))
		m.StartNode(names[i])
	}
	var mainLinks []*vx.Link
	var edges []vx.Edge
	for i := 0; i < s.Hops; i++ {
		spec := vx.LinkSpec{Ordered: s.Class == "clean"}
		if len(s.Links) > 0 && s.Class != "clean" {
			l := s.Links[i%len(s.Links)]
			spec.AB, spec.BA = l.AB, l.BA
		}
		link := &vx.Link{A: names[i], B: names[i+1], CostA: 1, CostB: 1, Spec: spec}
		m.AddLink(link)
		mainLinks = append(mainLinks, link)
		edges = append(edges, vx.Edge{A: names[i], B: names[i+1], Cost: 1})
	}
	all := append([]string{}, names...)
	if s.Detour {
		m.StartNode("x")
		all = append(all, "x")
		m.AddLink(&vx.Link{A: names[0], B: "x", CostA: 10, CostB: 10, Spec: vx.LinkSpec{Ordered: true}})
		m.AddLink(&vx.Link{A: "x", B: names[s.Hops], CostA: 10, CostB: 10, Spec: vx.LinkSpec{Ordered: true}})
		edges = append(edges, vx.Edge{A: names[0], B: "x", Cost: 10}, vx.Edge{A: "x", B: names[s.Hops], Cost: 10})
	}
	exp := expectedTables(all, edges)
	if msg := vx.WaitFor(60*time.Second, 50*time.Millisecond, func() string { return checkRouting(m, all, exp) }); msg != "" {
		return vx.Inconclusive("mesh did not converge over the faulty links: %s", msg)
	}
	first, last := m.Node(names[0]).N, m.Node(names[s.Hops]).N
	// through the proxies the application only sees a closed / reset TCP socket; what ended the mesh stream is in the nodes' logs
	nodeLog := &lockedBuf{}
	for _, nm := range all {
		m.Node(nm).N.Logger.SetOutput(io.Discard)
	}
	first.Logger.SetOutput(nodeLog)
	last.Logger.SetOutput(nodeLog)
	logger.SetGlobalLogLevel(logger.ErrorLevel)
	defer logger.SetGlobalQuietMode()
	wantAB, wantBA := sumInts(s.WritesA), sumInts(s.WritesB)
	labels := []string{"class:" + s.Class, "mode:" + s.Mode, "shape:" + s.Shape, fmt.Sprintf("hops=%d", s.Hops)}

	var aConn, bConn io.ReadWriteCloser // the two application ends
	acceptCh := make(chan io.ReadWriteCloser, 4)
	twinCh := make(chan io.ReadWriteCloser, 4)
	ctx, cancel := context.WithTimeout(context.Background(), 90*time.Second)
	defer cancel()
	if s.Twin && sumInts(s.TwinA) == 0 {
		s.TwinA = []int{1}
	}
	accepts := 1
	if s.Twin {
		accepts = 2
	}
	dispatch := func(c io.ReadWriteCloser) {
		if !s.Twin {
			acceptCh <- c
			return
		}
		go func() {
			buf := make([]byte, 1)
			n, _ := c.Read(buf)
			pc := &prefixedConn{ReadWriteCloser: c, pre: buf[:n]}
			if n == 1 && buf[0] == c03Byte(2, 0) {
				twinCh <- pc
			} else {
				acceptCh <- pc
			}
		}()
	}
	type twinResult struct {
		dialErr      error
		wErrA, wErrB error
		rdCli, rdSrv *c03Reader
		cliUp, srvUp chan struct{}
	}
	tw := &twinResult{cliUp: make(chan struct{}), srvUp: make(chan struct{})}
	wantTA, wantTB := sumInts(s.TwinA), sumInts(s.TwinB)
	twinStops := func() (int64, int64) {
		if s.Mode == "proxy" {
			return wantTB, wantTA
		}
		return -1, -1
	}
	runTwinClient := func(c io.ReadWriteCloser) {
		stopCli, _ := twinStops()
		tw.rdCli = readAll(c, 3, s.ReadA, stopCli, nil)
		close(tw.cliUp)
		_, tw.wErrA = writeAll(c, 2, s.TwinA)
		if s.Mode == "direct" {
			_ = c.Close()
		}
	}
	if s.Twin {
		go func() { // the accepting application's handling of the second connection
			select {
			case c := <-twinCh:
				_, stopSrv := twinStops()
				tw.rdSrv = readAll(c, 2, s.ReadB, stopSrv, nil)
				close(tw.srvUp)
				_, tw.wErrB = writeAll(c, 3, s.TwinB)
				if s.Mode == "direct" {
					_ = c.Close()
				}
			case <-ctx.Done():
			}
		}()
	}
	if s.Mode == "proxy" {
		// TCP server <- outbound proxy on the last node <- mesh <- inbound proxy on the first node <- TCP client
		srv, err := net.Listen("tcp", "127.0.0.1:0")
		if err != nil {
			return vx.Inconclusive("listen: %v", err)
		}
		defer srv.Close()
		go func() {
			for i := 0; i < accepts; i++ {
				c, err := srv.Accept()
				if err != nil {
					return
				}
				dispatch(c)
			}
		}()
		if err := services.TCPProxyServiceOutbound(last, "prox", nil, srv.Addr().String(), nil); err != nil {
			return vx.Inconclusive("outbound proxy: %v", err)
		}
		port := freePort()
		if err := services.TCPProxyServiceInbound(first, "127.0.0.1", port, nil, names[s.Hops], "prox", nil); err != nil {
			return vx.Inconclusive("inbound proxy: %v", err)
		}
		if s.Twin {
			go func() {
				c, err := net.DialTimeout("tcp", fmt.Sprintf("127.0.0.1:%d", port), 10*time.Second)
				if err != nil {
					tw.dialErr = err
					close(tw.cliUp)
					return
				}
				runTwinClient(c)
			}()
		}
		c, err := net.DialTimeout("tcp", fmt.Sprintf("127.0.0.1:%d", port), 10*time.Second)
		if err != nil {
			return vx.Inconclusive("dial proxy: %v", err)
		}
		aConn = c
	} else {
		li, err := last.Listen("strm", nil)
		if err != nil {
			return vx.Inconclusive("listen: %v", err)
		}
		go func() {
			for i := 0; i < accepts; i++ {
				c, err := li.Accept()
				if err != nil {
					return
				}
				dispatch(c)
			}
		}()
		if s.Twin {
			go func() {
				c, err := first.DialContext(ctx, names[s.Hops], "strm", nil)
				if err != nil {
					tw.dialErr = err
					close(tw.cliUp)
					return
				}
				runTwinClient(c)
			}()
		}
		var conn *netceptor.Conn
		var derr error
		if !vx.WithDeadline(95*time.Second, func() { conn, derr = first.DialContext(ctx, names[s.Hops], "strm", nil) }) {
			return vx.Inconclusive("dial blocked")
		}
		if derr != nil {
			if s.Class == "stress" {
				return vx.Inconclusive("dial failed under stress-class loss: %v", derr)
			}
			return vx.Violation("connects", "C03/dial-failed", "DialContext over %d hops (%s) failed: %v", s.Hops, s.Class, derr)
		}
		aConn = conn
	}
	// side A starts writing at once (the dial side must send something for the accept to happen)
	var wg sync.WaitGroup
	var wErrA, wErrB error
	var wroteA, wroteB int64
	var progressB int64
	rdA := (*c03Reader)(nil)
	wg.Add(1)
	go func() {
		defer wg.Done()
		wroteA, wErrA = writeAll(aConn, 0, s.WritesA)
		if s.Mode == "direct" {
			_ = aConn.Close() // half-close: end of A's stream (the other direction stays open)
		}
	}()
	select {
	case bConn = <-acceptCh:
	case <-time.After(90 * time.Second):
		if s.Class == "stress" {
			return vx.Inconclusive("accept did not happen under stress-class loss")
		}
		if wantAB == 0 && s.Mode == "proxy" {
			return vx.OK(false, append(labels, "proxy-without-data-never-connects")...)
		}
		return vx.Violation("connects", "C03/accept-missing", "the accepting side never got the connection (%s, %d hops)", s.Class, s.Hops)
	}
	// readers
	stopA, stopB := int64(-1), int64(-1)
	if s.Mode == "proxy" {
		stopA, stopB = wantBA, wantAB // through the bridge: read exactly what is expected, then close
	}
	rdB := readAll(bConn, 0, s.ReadB, stopB, &progressB)
	rdA = readAll(aConn, 1, s.ReadA, stopA, nil)
	// optional cut of the active path once data is flowing
	if s.Detour && s.CutAt > 0 && len(mainLinks) > 0 {
		go func() {
			for atomic.LoadInt64(&progressB) < int64(s.CutAt) {
				select {
				case <-rdB.done:
					return
				case <-time.After(2 * time.Millisecond):
				}
			}
			mainLinks[s.CutLink%len(mainLinks)].SetUp(false)
		}()
		labels = append(labels, "reroute")
	}
	wg.Add(1)
	go func() {
		defer wg.Done()
		if s.Shape == "pingpong" {
			// B answers only after it has everything from A
			for atomic.LoadInt64(&progressB) < wantAB {
				select {
				case <-rdB.done:
					if atomic.LoadInt64(&progressB) < wantAB {
						return
					}
				case <-time.After(2 * time.Millisecond):
				}
			}
		}
		wroteB, wErrB = writeAll(bConn, 1, s.WritesB)
		if s.Mode == "direct" {
			_ = bConn.Close()
		}
	}()
	deadline := make(chan struct{}) // closed when the time is up (every waiter sees it)
	dlTimer := time.AfterFunc(75*time.Second, func() { close(deadline) })
	defer dlTimer.Stop()
	waitDone := func(r *c03Reader) bool {
		select {
		case <-r.done:
			return true
		case <-deadline:
			return false
		}
	}
	okB := waitDone(rdB)
	okA := waitDone(rdA)
	// ---- safety: whatever was read is a prefix of what the peer wrote
	if rdB.bad >= 0 {
		return vx.CertainViolation("bytes-exact", "C03/bytes-altered", "acceptor read a wrong byte at offset %d of the dialler's stream (read %d of %d; %s, %d hops, mode %s)", rdB.bad, rdB.total, wantAB, s.Class, s.Hops, s.Mode)
	}
	if rdA.bad >= 0 {
		return vx.CertainViolation("bytes-exact", "C03/bytes-altered", "dialler read a wrong byte at offset %d of the acceptor's stream (read %d of %d; %s, %d hops, mode %s)", rdA.bad, rdA.total, wantBA, s.Class, s.Hops, s.Mode)
	}
	if rdB.total > wantAB || rdA.total > wantBA {
		return vx.CertainViolation("bytes-exact", "C03/bytes-repeated", "more bytes read than written: A->B %d/%d, B->A %d/%d", rdB.total, wantAB, rdA.total, wantBA)
	}
	// the known finding (an endpoint's own momentary send failure kills its QUIC connection) needs the cut link to be the one
	// next to an endpoint; with an interior cut the endpoints' next hops stay up and nothing excuses an incomplete transfer
	adjacentCut := s.Detour && s.CutAt > 0 && len(mainLinks) > 0 && (s.CutLink%len(mainLinks) == 0 || s.CutLink%len(mainLinks) == len(mainLinks)-1)
	// ---- completeness and end-of-stream
	complete := okA && okB && rdB.total == wantAB && rdA.total == wantBA
	eofOK := s.Mode == "proxy" || (rdA.eof && rdB.eof)
	if !complete || !eofOK {
		detail := fmt.Sprintf("A->B %d/%d (eof %v err %v, write err %v wrote %d), B->A %d/%d (eof %v err %v, write err %v wrote %d), finished in time: %v %v",
			rdB.total, wantAB, rdB.eof, rdB.err, wErrA, wroteA, rdA.total, wantBA, rdA.eof, rdA.err, wErrB, wroteB, okB, okA)
		earlyEOF := (rdB.eof && rdB.total < wantAB) || (rdA.eof && rdA.total < wantBA)
		if earlyEOF && s.Mode == "direct" {
			return vx.CertainViolation("eof-after-all-data", "C03/early-eof", "a reader saw end-of-stream before all data: %s (%s, %d hops)", detail, s.Class, s.Hops)
		}
		if s.Class == "stress" {
			v := vx.Inconclusive("transfer did not complete under stress-class loss: %s", detail)
			return v
		}
		if s.Mode == "proxy" {
			detail += " | endpoint nodes logged: " + nodeLog.tail(4000)
		}
		for _, needle := range []string{"no connection to next hop", "no route to node", "connInfo cancelled while forwarding"} {
			if strings.Contains(detail, "INTERNAL_ERROR (local): "+needle) {
				// the endpoint's own node could not hand a packet to a next hop for a moment (link just cut, session re-established);
				// the packet socket reports that as a write error and the QUIC layer treats every write error as fatal
				return vx.Violation("complete", "C03/local-send-error-aborts-stream", "a momentary send failure on the endpoint's own node (%q) aborted the stream although an alternative path exists / the link came back (%s, %d hops, detour %v, cut link %d at %d bytes): %s",
					needle, s.Class, s.Hops, s.Detour, s.CutLink%maxInt(1, s.Hops), s.CutAt, detail)
			}
		}
		if adjacentCut {
			return vx.Violation("complete", "C03/local-send-error-aborts-stream", "the link next to a stream endpoint was cut while a detour exists (cut link %d of %d at %d bytes) and the stream did not survive; the endpoint's own send failure ends its QUIC connection, which the application does not always get to see as an error text (%s, detour %v): %s",
				s.CutLink%maxInt(1, s.Hops), s.Hops, s.CutAt, s.Class, s.Detour, detail)
		}
		return vx.Violation("complete", "C03/incomplete", "transfer incomplete although the links lose at most 3%% (%s, %d hops, mode %s, shape %s): %s", s.Class, s.Hops, s.Mode, s.Shape, detail)
	}
	if s.Twin {
		labels = append(labels, "twin-connection")
		twinUp := func(ch chan struct{}) bool {
			select {
			case <-ch:
				return true
			case <-deadline:
				return false
			}
		}
		cliUp := twinUp(tw.cliUp)
		srvUp := cliUp && tw.dialErr == nil && twinUp(tw.srvUp)
		okC := cliUp && tw.rdCli != nil && waitDone(tw.rdCli)
		okS := srvUp && tw.rdSrv != nil && waitDone(tw.rdSrv)
		var gotS, gotC int64
		for _, r := range []*c03Reader{tw.rdSrv, tw.rdCli} {
			if r == nil || !func() bool {
				select {
				case <-r.done:
					return true
				default:
					return false
				}
			}() {
				continue
			}
			if r.bad >= 0 {
				return vx.CertainViolation("bytes-exact", "C03/bytes-altered", "on the second of two connections opened at the same time a wrong byte was read at offset %d (read %d; %s, %d hops, mode %s)", r.bad, r.total, s.Class, s.Hops, s.Mode)
			}
		}
		if okS {
			gotS = tw.rdSrv.total
		}
		if okC {
			gotC = tw.rdCli.total
		}
		if gotS > wantTA || gotC > wantTB {
			return vx.CertainViolation("bytes-exact", "C03/bytes-repeated", "second connection: more bytes read than written: A->B %d/%d, B->A %d/%d", gotS, wantTA, gotC, wantTB)
		}
		completeT := okC && okS && gotS == wantTA && gotC == wantTB && (s.Mode == "proxy" || (tw.rdSrv.eof && tw.rdCli.eof))
		if !completeT {
			detail := fmt.Sprintf("second connection: dial err %v, A->B %d/%d, B->A %d/%d, write errs %v %v, finished in time: %v %v", tw.dialErr, gotS, wantTA, gotC, wantTB, tw.wErrA, tw.wErrB, okS, okC)
			if okS && tw.rdSrv != nil {
				detail += fmt.Sprintf(" (acceptor: eof %v err %v)", tw.rdSrv.eof, tw.rdSrv.err)
			}
			if okC && tw.rdCli != nil {
				detail += fmt.Sprintf(" (dialler: eof %v err %v)", tw.rdCli.eof, tw.rdCli.err)
			}
			if s.Mode == "direct" && ((okS && tw.rdSrv.eof && gotS < wantTA) || (okC && tw.rdCli.eof && gotC < wantTB)) {
				return vx.CertainViolation("eof-after-all-data", "C03/early-eof", "a reader saw end-of-stream before all data: %s (%s, %d hops)", detail, s.Class, s.Hops)
			}
			if s.Class == "stress" {
				return vx.Inconclusive("transfer did not complete under stress-class loss: %s", detail)
			}
			if s.Mode == "proxy" {
				detail += " | endpoint nodes logged: " + nodeLog.tail(4000)
			}
			for _, needle := range []string{"no connection to next hop", "no route to node", "connInfo cancelled while forwarding"} {
				if strings.Contains(detail, "INTERNAL_ERROR (local): "+needle) {
					return vx.Violation("complete", "C03/local-send-error-aborts-stream", "a momentary send failure on the endpoint's own node (%q) aborted the stream although an alternative path exists / the link came back (%s, %d hops, detour %v, cut link %d at %d bytes): %s",
						needle, s.Class, s.Hops, s.Detour, s.CutLink%maxInt(1, s.Hops), s.CutAt, detail)
				}
			}
			if adjacentCut {
				return vx.Violation("complete", "C03/local-send-error-aborts-stream", "the link next to a stream endpoint was cut while a detour exists (cut link %d of %d at %d bytes) and the stream did not survive (%s): %s", s.CutLink%maxInt(1, s.Hops), s.Hops, s.CutAt, s.Class, detail)
			}
			return vx.Violation("complete", "C03/incomplete", "transfer incomplete although the links lose at most 3%% (%s, %d hops, mode %s, shape %s): %s", s.Class, s.Hops, s.Mode, s.Shape, detail)
		}
	}
	var drops, dups, holds int64
	for _, l := range mainLinks {
		if p := l.Current(); p != nil {
			for d := 0; d < 2; d++ {
				drops += atomic.LoadInt64(&p.Stats[d].Dropped)
				dups += atomic.LoadInt64(&p.Stats[d].Duped)
				holds += atomic.LoadInt64(&p.Stats[d].Held)
			}
		}
	}
	if drops > 0 {
		labels = append(labels, "datagrams-dropped")
	}
	if holds > 0 {
		labels = append(labels, "datagrams-reordered")
	}
	if dups > 0 {
		labels = append(labels, "datagrams-duplicated")
	}
	moved := wantAB + wantBA
	nontrivial := (drops > 0 && holds > 0 && moved >= 8192) || (s.Detour && s.CutAt > 0)
	return vx.OK(nontrivial, labels...)
}

func init() { vx.Register("C03", execC03) }

func maxInt(a, b int) int {
	if a > b {
		return a
	}
	return b
}
