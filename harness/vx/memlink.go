package vx

import (
	"context"
	"fmt"
	"io"
	"sync"
	"sync/atomic"
	"time"

	"github.com/ansible/receptor/pkg/netceptor"
)

// Fault is one entry of a per-direction fault programme, cycled over the datagrams of that direction.
// Kind: "pass" | "drop" | "dup" | "delay" (DelayMs) | "hold" (kept back until the next datagram has passed).
type Fault struct {
	Kind    string `json:"k"`
	DelayMs int    `json:"d,omitempty"`
}

// LinkSpec describes the behaviour of a link (both directions).
type LinkSpec struct {
	Ordered bool    `json:"ordered"`          // keep FIFO per direction (delays only stretch)
	AB      []Fault `json:"ab,omitempty"`     // programme for datagrams a->b
	BA      []Fault `json:"ba,omitempty"`     // programme for datagrams b->a
	Frame   []int   `json:"frame,omitempty"`  // if non-empty: carry the datagrams as a framed byte stream cut into these chunk sizes (cycled)
	Socket  string  `json:"socket,omitempty"` // "tcp" | "ws": real listener/dialer backends of pkg/backends on loopback, through a proxy that re-chunks the byte stream (Frame = piece sizes)
}

// TapFunc observes every datagram offered to a link direction (before faults). dir 0 = a->b, 1 = b->a.
type TapFunc func(dir int, data []byte)

// dirQueue delivers datagrams of one direction according to the fault programme.
type dirQueue struct {
	mu      sync.Mutex
	prog    []Fault
	pos     int
	ordered bool
	lastDue time.Time
	held    [][]byte
	out     chan []byte
	closed  chan struct{}
	stats   *LinkStats
	pending int64
}

// LinkStats counts what the fault programme actually did.
type LinkStats struct {
	Sent, Dropped, Duped, Delayed, Held int64
}

func (q *dirQueue) deliverAt(data []byte, due time.Time) {
	atomic.AddInt64(&q.pending, 1)
	d := time.Until(due)
	if d <= 0 && q.ordered {
		// keep order with earlier delayed datagrams: they all have due <= now as well, but run in goroutines; use a
		// strictly ordered path instead
	}
	go func() {
		defer atomic.AddInt64(&q.pending, -1)
		if d > 0 {
			select {
			case <-time.After(d):
			case <-q.closed:
				return
			}
		}
		select {
		case q.out <- data:
		case <-q.closed:
		}
	}()
}

// orderedPump is used in ordered mode: a single goroutine delivers in FIFO order, honouring due times.
type timed struct {
	data []byte
	due  time.Time
}

func (q *dirQueue) send(data []byte, fifo chan timed) {
	q.mu.Lock()
	atomic.AddInt64(&q.stats.Sent, 1)
	f := Fault{Kind: "pass"}
	if len(q.prog) > 0 {
		f = q.prog[q.pos%len(q.prog)]
		q.pos++
	}
	now := time.Now()
	emit := func(b []byte, due time.Time) {
		if q.ordered {
			if due.Before(q.lastDue) {
				due = q.lastDue
			}
			q.lastDue = due
			select {
			case fifo <- timed{b, due}:
			case <-q.closed:
			}
		} else {
			q.deliverAt(b, due)
		}
	}
	switch f.Kind {
	case "drop":
		atomic.AddInt64(&q.stats.Dropped, 1)
	case "dup":
		atomic.AddInt64(&q.stats.Duped, 1)
		emit(data, now)
		emit(append([]byte{}, data...), now)
	case "delay":
		atomic.AddInt64(&q.stats.Delayed, 1)
		emit(data, now.Add(time.Duration(f.DelayMs)*time.Millisecond))
	case "hold":
		if q.ordered {
			emit(data, now)
		} else {
			atomic.AddInt64(&q.stats.Held, 1)
			q.held = append(q.held, data)
			q.mu.Unlock()
			return
		}
	default:
		emit(data, now)
	}
	if len(q.held) > 0 && f.Kind != "drop" {
		for _, h := range q.held {
			emit(h, now.Add(time.Millisecond))
		}
		q.held = nil
	}
	q.mu.Unlock()
}

// MemSession is one end of an in-memory link; it implements netceptor.BackendSession.
type MemSession struct {
	pair    *SessionPair
	side    int // 0 = a end, 1 = b end
	in      chan []byte
	sendQ   *dirQueue
	fifo    chan timed
	own     chan struct{} // this end alone was closed (silent sessions)
	ownOnce sync.Once
}

// SessionPair is one established session between two link ends.
type SessionPair struct {
	A, B      *MemSession
	closed    chan struct{} // both ends closed (like a closed socket, seen by both sides)
	closeOnce sync.Once
	anyClosed chan struct{} // at least one end was closed (also when the other side has not been told: silent sessions)
	anyOnce   sync.Once
	silent    int32
	tap       TapFunc
	Stats     [2]LinkStats
}

// NewSessionPair creates the two ends of a session.
func NewSessionPair(spec LinkSpec, tap TapFunc) *SessionPair {
	p := &SessionPair{closed: make(chan struct{}), anyClosed: make(chan struct{}), tap: tap}
	mk := func(side int, prog []Fault) *MemSession {
		s := &MemSession{pair: p, side: side, in: make(chan []byte, 4096), own: make(chan struct{})}
		return s
	}
	p.A, p.B = mk(0, spec.AB), mk(1, spec.BA)
	p.A.sendQ = &dirQueue{prog: spec.AB, ordered: spec.Ordered, out: p.B.in, closed: p.closed, stats: &p.Stats[0]}
	p.B.sendQ = &dirQueue{prog: spec.BA, ordered: spec.Ordered, out: p.A.in, closed: p.closed, stats: &p.Stats[1]}
	for _, s := range []*MemSession{p.A, p.B} {
		if spec.Ordered {
			s.fifo = make(chan timed, 4096)
			go func(s *MemSession) {
				for {
					select {
					case <-p.closed:
						return
					case t := <-s.fifo:
						if d := time.Until(t.due); d > 0 {
							select {
							case <-time.After(d):
							case <-p.closed:
								return
							}
						}
						select {
						case s.sendQ.out <- t.data:
						case <-p.closed:
							return
						}
					}
				}
			}(s)
		}
	}
	return p
}

// SetSilent makes the session carry nothing (both directions) while staying open.
func (p *SessionPair) SetSilent(on bool) {
	v := int32(0)
	if on {
		v = 1
	}
	atomic.StoreInt32(&p.silent, v)
}

// Cut closes the session; both ends see an error like a closed socket.
func (p *SessionPair) Cut() {
	p.closeOnce.Do(func() { close(p.closed) })
	p.anyOnce.Do(func() { close(p.anyClosed) })
}

// Done is closed when the session has ended at one end at least (for a session that is not silent that is both ends at once).
func (p *SessionPair) Done() <-chan struct{} { return p.anyClosed }

func (s *MemSession) Send(data []byte) error {
	select {
	case <-s.pair.closed:
		return fmt.Errorf("memlink: session closed")
	case <-s.own:
		return fmt.Errorf("memlink: session closed")
	default:
	}
	cp := append([]byte{}, data...)
	if s.pair.tap != nil {
		s.pair.tap(s.side, cp)
	}
	if atomic.LoadInt32(&s.pair.silent) == 1 {
		return nil
	}
	s.sendQ.send(cp, s.fifo)
	return nil
}

func (s *MemSession) Recv(timeout time.Duration) ([]byte, error) {
	// what was delivered before the session ended is read before the end is reported (as on a socket)
	select {
	case b := <-s.in:
		return b, nil
	default:
	}
	select {
	case <-s.pair.closed:
		return nil, io.EOF
	case <-s.own:
		return nil, io.EOF
	default:
	}
	tm := time.NewTimer(timeout)
	defer tm.Stop()
	select {
	case b := <-s.in:
		return b, nil
	case <-s.pair.closed:
		select {
		case b := <-s.in:
			return b, nil
		default:
		}
		return nil, io.EOF
	case <-s.own:
		return nil, io.EOF
	case <-tm.C:
		return nil, netceptor.ErrTimeout
	}
}

// Close ends the session. A silent session (silent failure: nothing gets through, not even the news that one side gave up)
// is ended for the closing side only; the other side keeps its end until it closes it itself.
func (s *MemSession) Close() error {
	if atomic.LoadInt32(&s.pair.silent) == 1 {
		s.ownOnce.Do(func() { close(s.own) })
		s.pair.anyOnce.Do(func() { close(s.pair.anyClosed) })
		return nil
	}
	// an ordered link delivers what this end sent before it closes (data before FIN): give the queue a moment to drain
	if s.fifo != nil {
		for i := 0; i < 50 && len(s.fifo) > 0; i++ {
			time.Sleep(time.Millisecond)
		}
		time.Sleep(2 * time.Millisecond)
	}
	s.pair.Cut()
	return nil
}

// MemBackend implements netceptor.Backend; sessions are offered by the harness.
type MemBackend struct {
	mu   sync.Mutex
	ch   chan netceptor.BackendSession
	ctx  context.Context
	done bool
}

func NewMemBackend() *MemBackend { return &MemBackend{} }

func (b *MemBackend) Start(ctx context.Context, _ *sync.WaitGroup) (chan netceptor.BackendSession, error) {
	b.mu.Lock()
	defer b.mu.Unlock()
	b.ctx = ctx
	b.ch = make(chan netceptor.BackendSession)
	return b.ch, nil
}

// Offer hands a new session to the node; false if the backend is gone (node shut down) or did not take it in time.
func (b *MemBackend) Offer(s netceptor.BackendSession, wait time.Duration) bool {
	b.mu.Lock()
	ch, ctx := b.ch, b.ctx
	b.mu.Unlock()
	if ch == nil {
		return false
	}
	select {
	case ch <- s:
		return true
	case <-ctx.Done():
		return false
	case <-time.After(wait):
		return false
	}
}
