package vx

import (
	"crypto/rand"
	"crypto/rsa"
	"crypto/x509"
	"crypto/x509/pkix"
	"encoding/pem"
	"math/big"
	"sync"
	"time"
)

// Cached RSA keys (generation is the expensive part of every certificate case).
var (
	keyMu    sync.Mutex
	keyCache = map[string]*rsa.PrivateKey{}
)

// Key returns a cached 2048-bit RSA key by name.
func Key(name string) *rsa.PrivateKey {
	keyMu.Lock()
	defer keyMu.Unlock()
	if k, ok := keyCache[name]; ok {
		return k
	}
	k, err := rsa.GenerateKey(rand.Reader, 2048)
	if err != nil {
		panic(err)
	}
	keyCache[name] = k
	return k
}

// TestCA is a certificate authority made with the standard library only (independent of receptor's tooling).
type TestCA struct {
	Cert *x509.Certificate
	Key  *rsa.PrivateKey
}

var serial int64 = 1000

func nextSerial() *big.Int {
	keyMu.Lock()
	defer keyMu.Unlock()
	serial++
	return big.NewInt(serial)
}

// NewCA creates a self-signed CA (or, with parent != nil, an intermediate).
func NewCA(cn, keyName string, parent *TestCA) *TestCA {
	k := Key(keyName)
	tmpl := &x509.Certificate{SerialNumber: nextSerial(), Subject: pkix.Name{CommonName: cn},
		NotBefore: time.Now().Add(-24 * time.Hour), NotAfter: time.Now().Add(24 * 365 * time.Hour), IsCA: true,
		KeyUsage: x509.KeyUsageDigitalSignature | x509.KeyUsageCertSign, BasicConstraintsValid: true}
	signer, signKey := tmpl, k
	if parent != nil {
		signer, signKey = parent.Cert, parent.Key
	}
	der, err := x509.CreateCertificate(rand.Reader, tmpl, signer, &k.PublicKey, signKey)
	if err != nil {
		panic(err)
	}
	c, err := x509.ParseCertificate(der)
	if err != nil {
		panic(err)
	}
	return &TestCA{Cert: c, Key: k}
}

func CertPEM(c *x509.Certificate) []byte {
	return pem.EncodeToMemory(&pem.Block{Type: "CERTIFICATE", Bytes: c.Raw})
}

func KeyPEM(k *rsa.PrivateKey) []byte {
	return pem.EncodeToMemory(&pem.Block{Type: "RSA PRIVATE KEY", Bytes: x509.MarshalPKCS1PrivateKey(k)})
}

func PoolOf(cs ...*x509.Certificate) *x509.CertPool {
	p := x509.NewCertPool()
	for _, c := range cs {
		p.AddCert(c)
	}
	return p
}
