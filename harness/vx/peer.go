package vx

import (
	"context"
	"encoding/json"
	"fmt"
	"sync"
	"sync/atomic"
	"time"

	"github.com/ansible/receptor/pkg/netceptor"
)

// SUT is a single real node surrounded by scripted peers.
type SUT struct {
	ID     string
	N      *netceptor.Netceptor
	Cancel context.CancelFunc
	Peers  []*Peer
	seq    int64
	marker int64
}

// Recv is one datagram a scripted peer received from the SUT.
type Recv struct {
	Seq  int64
	At   time.Time
	Data []byte
}

// Peer is "the rest of the network" behind one backend session of the SUT, speaking the wire protocol by hand.
type Peer struct {
	ID      string
	sut     *SUT
	Backend *MemBackend
	Pair    *SessionPair
	End     *MemSession // the harness' end
	mu      sync.Mutex
	log     []Recv
	closed  bool
}

// NewSUT starts a real node. Periodic floods are effectively off when opts.RouteUpdate is very long.
func NewSUT(id string, opts NodeOpts) *SUT {
	ctx, cancel := context.WithCancel(context.Background())
	n := netceptor.NewWithConsts(ctx, id, 16384, opts.RouteUpdate, opts.ServiceAd, time.Hour, opts.MaxHops, opts.MaxIdle)
	return &SUT{ID: id, N: n, Cancel: cancel}
}

func (s *SUT) Close() {
	s.N.Shutdown()
	s.Cancel()
	for _, p := range s.Peers {
		p.Pair.Cut()
	}
}

// AddPeer adds a backend with the given modifiers and opens one session on it whose far end the harness drives.
func (s *SUT) AddPeer(id string, spec LinkSpec, mods ...func(*netceptor.BackendInfo)) *Peer {
	p := &Peer{ID: id, sut: s, Backend: NewMemBackend()}
	_ = s.N.AddBackend(p.Backend, mods...)
	s.Peers = append(s.Peers, p)
	p.Connect(spec)
	return p
}

// Connect opens a (new) session on the peer's backend.
func (p *Peer) Connect(spec LinkSpec) bool {
	pair := NewSessionPair(spec, nil)
	p.mu.Lock()
	p.Pair, p.End = pair, pair.B
	p.mu.Unlock()
	ok := p.Backend.Offer(pair.A, 5*time.Second)
	go p.reader(pair)
	return ok
}

func (p *Peer) reader(pair *SessionPair) {
	for {
		b, err := pair.B.Recv(500 * time.Millisecond)
		if err == netceptor.ErrTimeout {
			continue
		}
		if err != nil {
			return
		}
		p.mu.Lock()
		p.log = append(p.log, Recv{Seq: atomic.AddInt64(&p.sut.seq, 1), At: time.Now(), Data: b})
		p.mu.Unlock()
	}
}

// Send delivers raw bytes to the SUT on this session.
func (p *Peer) Send(b []byte) error {
	p.mu.Lock()
	e := p.End
	p.mu.Unlock()
	return e.Send(b)
}

// SessionClosed reports whether the SUT (or the harness) has closed the current session.
func (p *Peer) SessionClosed() bool {
	p.mu.Lock()
	pair := p.Pair
	p.mu.Unlock()
	select {
	case <-pair.Done():
		return true
	default:
		return false
	}
}

// Log returns a copy of everything received so far.
func (p *Peer) Log() []Recv {
	p.mu.Lock()
	defer p.mu.Unlock()
	return append([]Recv{}, p.log...)
}

// Routes returns the parsed routing updates received (type byte 1) with their log sequence numbers.
func (p *Peer) Routes() []RecvRoute {
	var out []RecvRoute
	for _, r := range p.Log() {
		if len(r.Data) > 0 && r.Data[0] == netceptor.MsgTypeRoute {
			var u RoutingUpdate
			if json.Unmarshal(r.Data[1:], &u) == nil {
				out = append(out, RecvRoute{Seq: r.Seq, U: u, Raw: r.Data})
			}
		}
	}
	return out
}

type RecvRoute struct {
	Seq int64
	U   RoutingUpdate
	Raw []byte
}

// Ads returns the parsed service advertisements received.
func (p *Peer) Ads() []ServiceAd {
	var out []ServiceAd
	for _, r := range p.Log() {
		if len(r.Data) > 0 && r.Data[0] == netceptor.MsgTypeServiceAdvertisement {
			var a ServiceAd
			if json.Unmarshal(r.Data[1:], &a) == nil {
				out = append(out, a)
			}
		}
	}
	return out
}

// Rejected reports whether a reject message (type 3) was received.
func (p *Peer) Rejected() bool {
	for _, r := range p.Log() {
		if len(r.Data) > 0 && r.Data[0] == netceptor.MsgTypeReject {
			return true
		}
	}
	return false
}

// Hello sends the peer's own routing update (handshake or refresh) listing the given connections.
func (p *Peer) Hello(epoch, seq uint64, conns map[string]float64) error {
	return p.Send(EncodeRoute(&RoutingUpdate{NodeID: p.ID, UpdateID: fmt.Sprintf("h-%s-%d-%d", p.ID, epoch, seq),
		UpdateEpoch: epoch, UpdateSequence: seq, Connections: conns, ForwardingNode: p.ID}))
}

// WaitConnected waits until the SUT lists the peer as a connection.
func (p *Peer) WaitConnected(d time.Duration) bool {
	return WaitFor(d, 10*time.Millisecond, func() string {
		for _, c := range p.sut.N.Status().Connections {
			if c.NodeID == p.ID {
				return ""
			}
		}
		return "not connected"
	}) == ""
}

// Barrier sends a marker advertisement on this session and waits until the SUT has processed it. Because a session's
// messages are handled sequentially, everything sent before on this session has been handled when it returns true.
func (p *Peer) Barrier(d time.Duration) bool {
	k := atomic.AddInt64(&p.sut.marker, 1)
	svc := fmt.Sprintf("m%d", k)
	node := "marker-" + p.ID
	_ = p.Send(EncodeAd(&ServiceAd{NodeID: node, Service: svc, Time: time.Now(), ConnType: 0}))
	return WaitFor(d, 2*time.Millisecond, func() string {
		if _, ok := p.sut.N.GetServiceInfo(node, svc); ok {
			return ""
		}
		return "marker not seen"
	}) == ""
}
