package vx

import (
	"bytes"
	"context"
	"encoding/binary"
	"encoding/json"
	"fmt"
	"net"
	"os"
	"sort"
	"sync"
	"time"

	"github.com/ansible/receptor/pkg/backends"
	"github.com/ansible/receptor/pkg/logger"
	"github.com/ansible/receptor/pkg/netceptor"
	"github.com/minio/highwayhash"
)

func init() {
	logger.SetGlobalQuietMode()
}

// ---------------------------------------------------------------------------------------------------------
// wire helpers (independent re-statement of the wire format used by scripted peers)

// RoutingUpdate mirrors the JSON body of a type-1 message.
type RoutingUpdate struct {
	NodeID             string
	UpdateID           string
	UpdateEpoch        uint64
	UpdateSequence     uint64
	Connections        map[string]float64
	ForwardingNode     string
	SuspectedDuplicate uint64
}

// ServiceAd mirrors the JSON body of a type-2 message.
type ServiceAd struct {
	NodeID       string
	Service      string
	Time         time.Time
	ConnType     byte
	Tags         map[string]string
	WorkCommands []netceptor.WorkCommand
	Cancel       bool
}

func EncodeRoute(u *RoutingUpdate) []byte {
	b, _ := json.Marshal(u)
	return append([]byte{netceptor.MsgTypeRoute}, b...)
}

func EncodeAd(a *ServiceAd) []byte {
	b, _ := json.Marshal(a)
	return append([]byte{netceptor.MsgTypeServiceAdvertisement}, b...)
}

var zeroKey = make([]byte, 32)

func NameHash(name string) uint64 {
	h, _ := highwayhash.New64(zeroKey)
	_, _ = h.Write([]byte(name))
	return h.Sum64()
}

// EncodeData builds a type-0 data packet.
func EncodeData(fromNode, fromSvc, toNode, toSvc string, ttl byte, payload []byte) []byte {
	buf := &bytes.Buffer{}
	buf.Write([]byte{0, ttl, 0, 0})
	_ = binary.Write(buf, binary.BigEndian, NameHash(fromNode))
	_ = binary.Write(buf, binary.BigEndian, NameHash(toNode))
	fs, ts := make([]byte, 8), make([]byte, 8)
	copy(fs, fromSvc)
	copy(ts, toSvc)
	buf.Write(fs)
	buf.Write(ts)
	buf.Write(payload)
	return buf.Bytes()
}

// DataPacket is a decoded type-0 packet (hashes unresolved).
type DataPacket struct {
	TTL              byte
	FromHash, ToHash uint64
	FromSvc, ToSvc   string
	Payload          []byte
}

func DecodeData(b []byte) (*DataPacket, bool) {
	if len(b) < 36 || b[0] != 0 {
		return nil, false
	}
	trim := func(x []byte) string { return string(bytes.TrimRight(x, "\x00")) }
	return &DataPacket{TTL: b[1], FromHash: binary.BigEndian.Uint64(b[4:12]), ToHash: binary.BigEndian.Uint64(b[12:20]),
		FromSvc: trim(b[20:28]), ToSvc: trim(b[28:36]), Payload: b[36:]}, true
}

// ---------------------------------------------------------------------------------------------------------
// mesh of real nodes

// NodeOpts are the protocol constants of a node.
type NodeOpts struct {
	RouteUpdate time.Duration
	ServiceAd   time.Duration
	MaxIdle     time.Duration
	MaxHops     byte
}

func DefaultNodeOpts() NodeOpts {
	return NodeOpts{RouteUpdate: 250 * time.Millisecond, ServiceAd: 300 * time.Millisecond, MaxIdle: 2 * time.Second, MaxHops: 30}
}

type Node struct {
	ID     string
	N      *netceptor.Netceptor
	Cancel context.CancelFunc
	ends   map[*Link]*MemBackend
	sends  map[*Link]*StreamBackend // links carried as framed byte streams (Spec.Frame non-empty)
}

// Link joins two nodes. The supervisor keeps it established while it is desired up and both nodes live.
type Link struct {
	A, B      string
	CostA     float64 // cost configured at A's end
	CostB     float64
	OverrideA bool // cost given as per-node override (BackendNodeCost) instead of backend default
	OverrideB bool
	Spec      LinkSpec
	Tap       TapFunc

	mu                  sync.Mutex
	up                  bool
	cur                 *SessionPair
	gen                 int
	silent              bool
	stream              [2]*ChunkConn
	sockPort, proxyPort int
	sockSplits          int64
}

// Generation counts the sessions the supervisor has created on this link so far (a stable link keeps its number).
func (l *Link) Generation() int {
	l.mu.Lock()
	defer l.mu.Unlock()
	return l.gen
}

// StreamSplits reports how many reads of the current framed stream ended inside buffered data (both directions).
func (l *Link) StreamSplits() int64 {
	l.mu.Lock()
	defer l.mu.Unlock()
	n := l.sockSplits
	for _, c := range l.stream {
		if c != nil {
			n += c.SplitReads()
		}
	}
	return n
}

type Mesh struct {
	mu   sync.Mutex
	Opts NodeOpts
	// IdleByNode overrides Opts.MaxIdle for single nodes (set before StartNode)
	IdleByNode map[string]time.Duration
	Nodes      map[string]*Node
	Links      []*Link
	ctx        context.Context
	cancel     context.CancelFunc
	wg         sync.WaitGroup
}

func NewMesh(opts NodeOpts) *Mesh {
	ctx, cancel := context.WithCancel(context.Background())
	return &Mesh{Opts: opts, Nodes: map[string]*Node{}, ctx: ctx, cancel: cancel}
}

// StartNode creates a fresh Netceptor under the given ID and attaches a backend for every link that names it.
func (m *Mesh) StartNode(id string) *Node {
	ctx, cancel := context.WithCancel(m.ctx)
	idle := m.Opts.MaxIdle
	m.mu.Lock()
	if d, ok := m.IdleByNode[id]; ok {
		idle = d
	}
	m.mu.Unlock()
	n := netceptor.NewWithConsts(ctx, id, 16384, m.Opts.RouteUpdate, m.Opts.ServiceAd, time.Hour, m.Opts.MaxHops, idle)
	if p := os.Getenv("VX_RECEPTOR_LOG"); p != "" { // development aid: receptor's own log of every node, appended to a file
		if f, err := os.OpenFile(p, os.O_APPEND|os.O_CREATE|os.O_WRONLY, 0o644); err == nil {
			n.Logger.SetOutput(f)
			n.Logger.SetPrefix(id)
			logger.SetGlobalLogLevel(logger.InfoLevel)
		}
	}
	node := &Node{ID: id, N: n, Cancel: cancel, ends: map[*Link]*MemBackend{}, sends: map[*Link]*StreamBackend{}}
	m.mu.Lock()
	m.Nodes[id] = node
	links := append([]*Link{}, m.Links...)
	m.mu.Unlock()
	for _, l := range links {
		if l.A == id || l.B == id {
			m.attach(node, l)
		}
	}
	return node
}

func (m *Mesh) attach(node *Node, l *Link) {
	be := NewMemBackend()
	cost, override, peer := l.CostA, l.OverrideA, l.B
	if node.ID == l.B && !(l.A == l.B) {
		cost, override, peer = l.CostB, l.OverrideB, l.A
	}
	var mods []func(*netceptor.BackendInfo)
	if override {
		mods = append(mods, netceptor.BackendConnectionCost(cost+17), netceptor.BackendNodeCost(map[string]float64{peer: cost}))
	} else {
		mods = append(mods, netceptor.BackendConnectionCost(cost))
	}
	if l.Spec.Socket != "" {
		m.attachSocket(node, l, mods)
		return
	}
	if len(l.Spec.Frame) > 0 {
		sb := NewStreamBackend()
		_ = node.N.AddBackend(sb.EB, mods...)
		m.mu.Lock()
		node.sends[l] = sb
		m.mu.Unlock()
		return
	}
	_ = node.N.AddBackend(be, mods...)
	m.mu.Lock()
	node.ends[l] = be
	m.mu.Unlock()
}

// StopNode shuts a node down.
func (m *Mesh) StopNode(id string) {
	m.mu.Lock()
	n := m.Nodes[id]
	delete(m.Nodes, id)
	m.mu.Unlock()
	if n != nil {
		n.N.Shutdown()
		n.Cancel()
	}
}

func (m *Mesh) Node(id string) *Node {
	m.mu.Lock()
	defer m.mu.Unlock()
	return m.Nodes[id]
}

// AddLink registers a link (initially desired up) and starts its supervisor.
func (m *Mesh) AddLink(l *Link) {
	l.up = true
	m.mu.Lock()
	m.Links = append(m.Links, l)
	a, b := m.Nodes[l.A], m.Nodes[l.B]
	m.mu.Unlock()
	if a != nil {
		m.attach(a, l)
	}
	if b != nil {
		m.attach(b, l)
	}
	m.wg.Add(1)
	go m.supervise(l)
}

func (m *Mesh) supervise(l *Link) {
	defer m.wg.Done()
	if l.Spec.Socket != "" {
		return // the dialer backend of pkg/backends re-dials by itself
	}
	for {
		if m.ctx.Err() != nil {
			return
		}
		l.mu.Lock()
		up := l.up
		l.mu.Unlock()
		m.mu.Lock()
		a, b := m.Nodes[l.A], m.Nodes[l.B]
		var ba, bb *MemBackend
		var sa, sb *StreamBackend
		if a != nil {
			ba, sa = a.ends[l], a.sends[l]
		}
		if b != nil {
			bb, sb = b.ends[l], b.sends[l]
		}
		m.mu.Unlock()
		if up && sa != nil && sb != nil {
			// framed byte stream through receptor's own framer, cut into the drawn chunk sizes in both directions
			ca, cb := NewChunkConnPair(l.Spec.Frame, l.Spec.Frame)
			l.mu.Lock()
			l.stream = [2]*ChunkConn{ca, cb}
			l.gen++
			l.mu.Unlock()
			sa.Attach(ca)
			sb.Attach(cb)
			select {
			case <-ca.Done():
				cb.Close()
			case <-cb.Done():
				ca.Close()
			case <-m.ctx.Done():
				ca.Close()
				cb.Close()
				return
			}
			select {
			case <-m.ctx.Done():
				return
			case <-time.After(100 * time.Millisecond):
			}
			continue
		}
		if !up || ba == nil || bb == nil {
			select {
			case <-m.ctx.Done():
				return
			case <-time.After(50 * time.Millisecond):
			}
			continue
		}
		p := NewSessionPair(l.Spec, l.Tap)
		l.mu.Lock()
		l.cur = p
		l.gen++
		if l.silent {
			p.SetSilent(true)
		}
		stillUp := l.up // SetUp(false) may have come in since the check above: it cut the previous session, not this one
		l.mu.Unlock()
		if !stillUp {
			p.Cut()
			continue
		}
		okA := ba.Offer(p.A, 2*time.Second)
		okB := okA && bb.Offer(p.B, 2*time.Second)
		if !okA || !okB {
			p.Cut()
		}
		l.mu.Lock()
		if !l.up {
			p.Cut() // taken down while the session was being handed over
		}
		l.mu.Unlock()
		select {
		case <-p.Done():
		case <-m.ctx.Done():
			p.Cut()
			return
		}
		select {
		case <-m.ctx.Done():
			return
		case <-time.After(100 * time.Millisecond):
		}
	}
}

// SetUp sets the desired state; taking a link down cuts the current session.
func (l *Link) SetUp(up bool) {
	l.mu.Lock()
	l.up = up
	cur := l.cur
	if up {
		l.silent = false
	}
	l.mu.Unlock()
	if !up && cur != nil {
		cur.Cut()
	}
	if !up {
		l.mu.Lock()
		st := l.stream
		l.mu.Unlock()
		for _, c := range st {
			if c != nil {
				c.Close()
			}
		}
	}
}

// SetSilent makes the current and future sessions of the link carry nothing while staying open.
func (l *Link) SetSilent(on bool) {
	l.mu.Lock()
	l.silent = on
	cur := l.cur
	l.mu.Unlock()
	if cur != nil {
		cur.SetSilent(on)
	}
}

func (l *Link) IsUp() bool {
	l.mu.Lock()
	defer l.mu.Unlock()
	return l.up && !l.silent
}

// Current returns the current session pair (may be nil or already closed).
func (l *Link) Current() *SessionPair {
	l.mu.Lock()
	defer l.mu.Unlock()
	return l.cur
}

// Close tears the mesh down without waiting for the nodes (R7: never block on the SUT).
func (m *Mesh) Close() {
	m.mu.Lock()
	nodes := []*Node{}
	for _, n := range m.Nodes {
		nodes = append(nodes, n)
	}
	m.mu.Unlock()
	for _, n := range nodes {
		n.N.Shutdown()
	}
	m.cancel()
	done := make(chan struct{})
	go func() { m.wg.Wait(); close(done) }()
	select {
	case <-done:
	case <-time.After(3 * time.Second):
	}
}

// ---------------------------------------------------------------------------------------------------------
// topology oracle

type Edge struct {
	A, B string
	Cost float64
}

// ShortestPaths computes all-pairs least costs over an undirected weighted graph (Floyd-Warshall).
func ShortestPaths(nodes []string, edges []Edge) map[string]map[string]float64 {
	const inf = 1e300
	d := map[string]map[string]float64{}
	for _, a := range nodes {
		d[a] = map[string]float64{}
		for _, b := range nodes {
			if a == b {
				d[a][b] = 0
			} else {
				d[a][b] = inf
			}
		}
	}
	for _, e := range edges {
		if _, ok := d[e.A]; !ok {
			continue
		}
		if _, ok := d[e.B]; !ok {
			continue
		}
		if e.Cost < d[e.A][e.B] {
			d[e.A][e.B] = e.Cost
			d[e.B][e.A] = e.Cost
		}
	}
	for _, k := range nodes {
		for _, i := range nodes {
			for _, j := range nodes {
				if d[i][k]+d[k][j] < d[i][j] {
					d[i][j] = d[i][k] + d[k][j]
				}
			}
		}
	}
	for _, a := range nodes {
		for _, b := range nodes {
			if d[a][b] >= inf {
				delete(d[a], b)
			}
		}
	}
	return d
}

// WaitFor polls cond until it returns "" (satisfied) or the deadline passes; returns the last complaint.
func WaitFor(deadline time.Duration, poll time.Duration, cond func() string) string {
	end := time.Now().Add(deadline)
	var last string
	for {
		last = cond()
		if last == "" {
			return ""
		}
		if time.Now().After(end) {
			return last
		}
		time.Sleep(poll)
	}
}

// WithDeadline runs f in a goroutine and reports whether it returned in time (R7).
func WithDeadline(d time.Duration, f func()) bool {
	done := make(chan struct{})
	go func() { defer close(done); f() }()
	select {
	case <-done:
		return true
	case <-time.After(d):
		return false
	}
}

func SortedKeys(m map[string]string) []string {
	ks := make([]string, 0, len(m))
	for k := range m {
		ks = append(ks, k)
	}
	sort.Strings(ks)
	return ks
}

func Sprint(a ...interface{}) string { return fmt.Sprint(a...) }

// attachSocket connects a link through the real backends of pkg/backends: end A listens (TCP or websocket), end B
// dials a loopback proxy that forwards to A and re-chunks the byte stream into the drawn piece sizes.
func (m *Mesh) attachSocket(node *Node, l *Link, mods []func(*netceptor.BackendInfo)) {
	l.mu.Lock()
	if l.sockPort == 0 {
		l.sockPort, l.proxyPort = freePort(), freePort()
		go chunkProxy(m.ctx, l.proxyPort, l.sockPort, l.Spec.Frame, l)
	}
	lp, pp := l.sockPort, l.proxyPort
	l.mu.Unlock()
	var be netceptor.Backend
	var err error
	isA := node.ID == l.A
	switch {
	case l.Spec.Socket == "tcp" && isA:
		be, err = backends.NewTCPListener(fmt.Sprintf("127.0.0.1:%d", lp), nil, node.N.Logger)
	case l.Spec.Socket == "tcp":
		be, err = backends.NewTCPDialer(fmt.Sprintf("127.0.0.1:%d", pp), true, nil, node.N.Logger)
	case isA:
		be, err = backends.NewWebsocketListener(fmt.Sprintf("127.0.0.1:%d", lp), nil, node.N.Logger, nil, nil)
	default:
		be, err = backends.NewWebsocketDialer(fmt.Sprintf("ws://127.0.0.1:%d", pp), nil, "", true, node.N.Logger, nil)
	}
	if err == nil {
		_ = node.N.AddBackend(be, mods...)
	}
}

func freePort() int {
	ln, err := net.Listen("tcp", "127.0.0.1:0")
	if err != nil {
		return 0
	}
	defer ln.Close()
	return ln.Addr().(*net.TCPAddr).Port
}

// chunkProxy forwards TCP connections from listenPort to targetPort, writing the bytes in pieces of the drawn sizes
// (TCP_NODELAY, a short pause between pieces) so that the receiver's reads see the stream fragmented.
func chunkProxy(ctx context.Context, listenPort, targetPort int, chunks []int, l *Link) {
	ln, err := net.Listen("tcp", fmt.Sprintf("127.0.0.1:%d", listenPort))
	if err != nil {
		return
	}
	go func() { <-ctx.Done(); ln.Close() }()
	for {
		c, err := ln.Accept()
		if err != nil {
			return
		}
		go func(c net.Conn) {
			var t net.Conn
			for i := 0; i < 50; i++ {
				t, err = net.DialTimeout("tcp", fmt.Sprintf("127.0.0.1:%d", targetPort), time.Second)
				if err == nil {
					break
				}
				time.Sleep(100 * time.Millisecond)
			}
			if err != nil {
				c.Close()
				return
			}
			pipe := func(dst, src net.Conn) {
				defer dst.Close()
				defer src.Close()
				if tc, ok := dst.(*net.TCPConn); ok {
					_ = tc.SetNoDelay(true)
				}
				buf := make([]byte, 1<<16)
				k := 0
				for {
					n, err := src.Read(buf)
					b := buf[:n]
					for len(b) > 0 {
						sz := len(b)
						if len(chunks) > 0 {
							if c := chunks[k%len(chunks)]; c > 0 && c < sz {
								sz = c
								l.mu.Lock()
								l.sockSplits++
								l.mu.Unlock()
							}
							k++
						}
						if _, werr := dst.Write(b[:sz]); werr != nil {
							return
						}
						b = b[sz:]
						if len(b) > 0 {
							time.Sleep(50 * time.Microsecond) // keeps a 16 KiB frame well under the nodes' (shortened) idle limit
						}
					}
					if err != nil {
						return
					}
				}
			}
			go pipe(t, c)
			pipe(c, t)
		}(c)
	}
}
