// Package vx is the shared harness library: scenario executor protocol, driver-side runner with crash
// containment, statistics for the evidence files, known-finding matching.
package vx

import (
	"bufio"
	"bytes"
	"crypto/sha256"
	"encoding/hex"
	"encoding/json"
	"fmt"
	"io"
	"os"
	"os/exec"
	"runtime"
	"sort"
	"strconv"
	"strings"
	"sync"
	"syscall"
	"testing"
	"time"
)

// Verdict is what an executor says about one scenario.
type Verdict struct {
	Status        string   `json:"status"` // ok | violation | crash | inconclusive
	Clause        string   `json:"clause,omitempty"`
	Detail        string   `json:"detail,omitempty"`
	Sig           string   `json:"sig,omitempty"` // signature used for known-finding matching
	Labels        []string `json:"labels,omitempty"`
	Nontrivial    bool     `json:"nontrivial,omitempty"`
	Unconstrained int      `json:"unconstrained,omitempty"`
	Notes         []string `json:"notes,omitempty"`
	LagMs         int64    `json:"lag_ms,omitempty"`
	// Certain marks a violation that is a directly observed safety fact (two survivors of a race, a byte that differs,
	// a record that does not parse): it does not depend on a deadline, so it is reported even when the schedule that
	// produced it does not recur on replay.
	Certain bool `json:"certain,omitempty"`
}

func OK(nontrivial bool, labels ...string) Verdict {
	return Verdict{Status: "ok", Nontrivial: nontrivial, Labels: labels}
}

func Violation(clause, sig, format string, a ...interface{}) Verdict {
	return Verdict{Status: "violation", Clause: clause, Sig: sig, Detail: fmt.Sprintf(format, a...)}
}

// CertainViolation is a violation whose evidence is a directly observed fact rather than a missed deadline.
func CertainViolation(clause, sig, format string, a ...interface{}) Verdict {
	v := Violation(clause, sig, format, a...)
	v.Certain = true
	return v
}

func Inconclusive(format string, a ...interface{}) Verdict {
	return Verdict{Status: "inconclusive", Detail: fmt.Sprintf(format, a...)}
}

// ExecFunc runs one scenario (canonical JSON) against the real code and judges it.
type ExecFunc func(scenario []byte) Verdict

var registry = map[string]ExecFunc{}

// Register makes an executor known under a name ("C07", "C12.pure", ...).
func Register(name string, f ExecFunc) { registry[name] = f }

// LagMonitor measures the scheduling lag of the process (overshoot of a 10 ms ticker).
type LagMonitor struct {
	mu   sync.Mutex
	max  time.Duration
	stop chan struct{}
}

func StartLagMonitor() *LagMonitor {
	l := &LagMonitor{stop: make(chan struct{})}
	go func() {
		last := time.Now()
		for {
			select {
			case <-l.stop:
				return
			case <-time.After(10 * time.Millisecond):
			}
			now := time.Now()
			over := now.Sub(last) - 10*time.Millisecond
			last = now
			l.mu.Lock()
			if over > l.max {
				l.max = over
			}
			l.mu.Unlock()
		}
	}()
	return l
}

func (l *LagMonitor) Stop() time.Duration {
	close(l.stop)
	l.mu.Lock()
	defer l.mu.Unlock()
	return l.max
}

func runGuarded(f ExecFunc, scn []byte, contain bool) (v Verdict) {
	if contain {
		defer func() {
			if r := recover(); r != nil {
				buf := make([]byte, 16384)
				n := runtime.Stack(buf, false)
				v = Verdict{Status: "crash", Clause: "panic", Sig: "panic:" + PanicSig(fmt.Sprint(r), string(buf[:n])),
					Detail: fmt.Sprintf("panic: %v\n%s", r, buf[:n])}
			}
		}()
	}
	lag := StartLagMonitor()
	v = f(scn)
	v.LagMs = lag.Stop().Milliseconds()
	return v
}

// Main must be called from TestMain. In executor mode (VX_EXEC=<name>) it serves scenarios from stdin and never
// returns; in replay mode (VX_REPLAY=<file>, VX_EXEC_NAME=<name>) it runs one scenario; otherwise it runs the tests.
func Main(m *testing.M) {
	if name := os.Getenv("VX_EXEC"); name != "" {
		f, ok := registry[name]
		if !ok {
			fmt.Fprintf(os.Stderr, "vx: unknown executor %q\n", name)
			os.Exit(3)
		}
		serve(f)
		os.Exit(0)
	}
	os.Exit(m.Run())
}

func serve(f ExecFunc) {
	rd := bufio.NewReaderSize(os.Stdin, 1<<20)
	out := bufio.NewWriter(os.Stdout)
	// parent death => stdin EOF => exit
	for {
		line, err := rd.ReadBytes('\n')
		if len(bytes.TrimSpace(line)) > 0 {
			v := runGuarded(f, bytes.TrimSpace(line), false)
			b, _ := json.Marshal(v)
			out.WriteString("VX-VERDICT ")
			out.Write(b)
			out.WriteString("\n")
			out.Flush()
		}
		if err != nil {
			return
		}
	}
}

// PanicSig normalises a panic/fatal into "message-class @ top receptor frame".
func PanicSig(msg string, stack string) string {
	cls := msg
	if i := strings.Index(cls, "\n"); i >= 0 {
		cls = cls[:i]
	}
	// strip numbers (addresses, indices)
	var sb strings.Builder
	for _, r := range cls {
		if r >= '0' && r <= '9' {
			continue
		}
		sb.WriteRune(r)
	}
	cls = strings.TrimSpace(sb.String())
	if len(cls) > 80 {
		cls = cls[:80]
	}
	frame := ""
	for _, l := range strings.Split(stack, "\n") {
		l = strings.TrimSpace(l)
		if strings.HasPrefix(l, "github.com/ansible/receptor/") {
			if i := strings.Index(l, "("); i > 0 {
				l = l[:i]
			}
			frame = strings.TrimPrefix(l, "github.com/ansible/receptor/")
			break
		}
	}
	return cls + " @ " + frame
}

// ---------------------------------------------------------------------------------------------------------
// Driver side

// Runner runs scenarios for one executor name, either in a child process (crash containment) or in-process.
type Runner struct {
	Name    string
	InProc  bool
	Timeout time.Duration // per scenario; exceeded => child killed, verdict "crash/hang"
	Recycle int           // restart the child every N scenarios (0 = never)
	Env     []string

	mu     sync.Mutex
	cmd    *exec.Cmd
	stdin  io.WriteCloser
	stdout *bufio.Reader
	stderr *tailBuffer
	served int
	exited chan struct{} // closed when the child process itself has exited (its pipes may be kept open by grandchildren)
}

type tailBuffer struct {
	mu   sync.Mutex
	buf  []byte
	max  int
	head []byte // the first 16 KiB (a fatal error is announced at the start of a possibly huge goroutine dump)
}

func (t *tailBuffer) Write(p []byte) (int, error) {
	t.mu.Lock()
	defer t.mu.Unlock()
	if len(t.head) < 16384 {
		n := 16384 - len(t.head)
		if n > len(p) {
			n = len(p)
		}
		t.head = append(t.head, p[:n]...)
	}
	t.buf = append(t.buf, p...)
	if len(t.buf) > t.max {
		t.buf = t.buf[len(t.buf)-t.max:]
	}
	return len(p), nil
}

func (t *tailBuffer) String() string {
	t.mu.Lock()
	defer t.mu.Unlock()
	if len(t.buf) >= t.max && len(t.head) > 0 {
		return string(t.head) + "\n[...]\n" + string(t.buf)
	}
	return string(t.buf)
}

func (r *Runner) start() error {
	exe, err := os.Executable()
	if err != nil {
		return err
	}
	cmd := exec.Command(exe, "-test.run=^$")
	cmd.Env = append(os.Environ(), "VX_EXEC="+r.Name)
	cmd.Env = append(cmd.Env, r.Env...)
	cmd.SysProcAttr = &syscall.SysProcAttr{Setpgid: true, Pdeathsig: syscall.SIGKILL}
	in, err := cmd.StdinPipe()
	if err != nil {
		return err
	}
	out, err := cmd.StdoutPipe()
	if err != nil {
		return err
	}
	r.stderr = &tailBuffer{max: 64 << 10}
	cmd.Stderr = r.stderr
	if err := cmd.Start(); err != nil {
		return err
	}
	r.cmd, r.stdin, r.stdout, r.served = cmd, in, bufio.NewReaderSize(out, 1<<20), 0
	exited := make(chan struct{})
	r.exited = exited
	go func(p *os.Process) {
		_, _ = p.Wait()
		close(exited)
	}(cmd.Process)
	return nil
}

func (r *Runner) kill() {
	if r.cmd != nil && r.cmd.Process != nil {
		_ = syscall.Kill(-r.cmd.Process.Pid, syscall.SIGKILL)
		_ = r.cmd.Process.Kill()
		_, _ = r.cmd.Process.Wait()
	}
	r.cmd = nil
}

// Close stops the child.
func (r *Runner) Close() {
	r.mu.Lock()
	defer r.mu.Unlock()
	if r.stdin != nil {
		r.stdin.Close()
	}
	r.kill()
}

// Run executes one scenario and returns its verdict. It never blocks longer than Timeout (+ respawn).
func (r *Runner) Run(scn interface{}) Verdict {
	b, err := json.Marshal(scn)
	if err != nil {
		return Inconclusive("marshal: %v", err)
	}
	return r.RunJSON(b)
}

func (r *Runner) RunJSON(b []byte) Verdict {
	if r.InProc {
		return runGuarded(registry[r.Name], b, true)
	}
	r.mu.Lock()
	defer r.mu.Unlock()
	if r.cmd != nil && r.Recycle > 0 && r.served >= r.Recycle {
		r.stdin.Close()
		r.kill()
	}
	if r.cmd == nil {
		if err := r.start(); err != nil {
			return Inconclusive("cannot start executor: %v", err)
		}
	}
	r.served++
	if _, err := r.stdin.Write(append(append([]byte{}, b...), '\n')); err != nil {
		st := r.stderr.String()
		r.kill()
		return crashVerdict("executor stdin: "+err.Error(), st)
	}
	type res struct {
		line []byte
		err  error
	}
	ch := make(chan res, 1)
	rd := r.stdout
	go func() {
		for {
			line, err := rd.ReadBytes('\n')
			if bytes.HasPrefix(line, []byte("VX-VERDICT ")) {
				ch <- res{line: line[len("VX-VERDICT "):]}
				return
			}
			if err != nil {
				ch <- res{err: err}
				return
			}
		}
	}()
	to := r.Timeout
	if to == 0 {
		to = 120 * time.Second
	}
	exited := r.exited
	select {
	case <-exited:
		// the executor process is gone; a verdict line may still be in the pipe
		select {
		case x := <-ch:
			if x.err == nil {
				var v Verdict
				if err := json.Unmarshal(x.line, &v); err == nil {
					r.kill()
					return v
				}
			}
		case <-time.After(200 * time.Millisecond):
		}
		st := r.stderr.String()
		r.kill()
		return crashVerdict("executor died", st)
	case x := <-ch:
		if x.err != nil {
			// child died
			time.Sleep(50 * time.Millisecond)
			st := r.stderr.String()
			r.kill()
			return crashVerdict("executor died: "+x.err.Error(), st)
		}
		var v Verdict
		if err := json.Unmarshal(x.line, &v); err != nil {
			return Inconclusive("bad verdict line: %v", err)
		}
		return v
	case <-time.After(to):
		// ask for goroutine dump, then kill
		if r.cmd != nil && r.cmd.Process != nil {
			_ = r.cmd.Process.Signal(syscall.SIGQUIT)
			time.Sleep(500 * time.Millisecond)
		}
		st := r.stderr.String()
		r.kill()
		return Verdict{Status: "inconclusive", Clause: "harness-timeout", Detail: "executor exceeded per-scenario timeout " + to.String() + "\n" + tail(st, 6000)}
	}
}

func tail(s string, n int) string {
	if len(s) > n {
		return s[len(s)-n:]
	}
	return s
}

func crashVerdict(why string, stderr string) Verdict {
	msg, stack := "", stderr
	// find "panic: " or "fatal error: "
	idx := strings.LastIndex(stderr, "\npanic: ")
	if idx < 0 && strings.HasPrefix(stderr, "panic: ") {
		idx = 0
	}
	if j := strings.LastIndex(stderr, "fatal error: "); j > idx {
		idx = j
	}
	if j := strings.Index(stderr, "runtime: goroutine stack exceeds"); j >= 0 && (idx < 0 || j < idx) {
		idx = j
	}
	if idx >= 0 {
		rest := strings.TrimLeft(stderr[idx:], "\n")
		msg = rest
		if k := strings.Index(rest, "\n"); k >= 0 {
			msg = rest[:k]
			stack = rest[k:]
		}
	}
	detail := stderr
	if len(detail) > 9000 {
		detail = detail[:5000] + "\n[...]\n" + tail(detail, 3500)
	}
	return Verdict{Status: "crash", Clause: "process-died", Sig: "panic:" + PanicSig(msg, stack), Detail: why + "\n" + detail}
}

// ---------------------------------------------------------------------------------------------------------
// Known findings

type KnownFinding struct {
	Status   string `json:"status"` // known | fixed
	Property string `json:"property"`
	Sig      string `json:"signature,omitempty"`
	Commit   string `json:"commit,omitempty"`
	What     string `json:"what"`
}

var (
	knownOnce sync.Once
	known     []KnownFinding
)

func loadKnown() {
	knownOnce.Do(func() {
		p := os.Getenv("VX_KNOWN")
		if p == "" {
			return
		}
		b, err := os.ReadFile(p)
		if err != nil {
			return
		}
		var f struct {
			Findings []KnownFinding `json:"findings"`
		}
		if json.Unmarshal(b, &f) == nil {
			known = f.Findings
		}
	})
}

// IsKnown reports whether a violation signature of a property is listed as a known (unrepaired) finding.
func IsKnown(prop, sig string) bool {
	loadKnown()
	for _, k := range known {
		if k.Status == "known" && k.Property == prop && k.Sig != "" && k.Sig == sig {
			return true
		}
	}
	return false
}

// ---------------------------------------------------------------------------------------------------------
// Statistics

type Stats struct {
	Property      string         `json:"property"`
	Part          string         `json:"part"`
	Seed          uint64         `json:"seed"`
	Evaluations   int            `json:"evaluations"`
	ShrinkRuns    int            `json:"shrink_runs"`
	Nontrivial    []string       `json:"nontrivial_hashes"`
	Labels        map[string]int `json:"labels"`
	Samples       []Sample       `json:"samples"`
	Unconstrained int            `json:"unconstrained"`
	Inconclusive  int            `json:"inconclusive"`
	InconcWhy     []string       `json:"inconclusive_why,omitempty"`
	KnownHits     map[string]int `json:"known_hits"`
	Failures      int            `json:"failures"`
	FailFile      string         `json:"fail_file,omitempty"`
	FailVerdict   *Verdict       `json:"fail_verdict,omitempty"`
	MaxLagMs      int64          `json:"max_lag_ms"`
	Rule          string         `json:"rule"`
	WallS         float64        `json:"wall_s"`
	Extra         map[string]int `json:"extra,omitempty"`

	mu        sync.Mutex
	ntSet     map[string]bool
	start     time.Time
	failing   bool
	lblSeen   map[string]bool
	fuzz      bool // driven by go's native fuzzing: several worker processes, each with its own statistics file, flushed as it goes
	lastFlush time.Time
}

// Fuzz marks the statistics as belonging to one process of a native fuzzing campaign (go test -fuzz): the statistics and
// failing-scenario files carry the process ID, and the statistics are written every few seconds because workers are killed
// without notice when the campaign ends.
func (s *Stats) Fuzz() *Stats {
	s.fuzz = true
	s.lastFlush = time.Now()
	return s
}

func NewStats(property, part, rule string) *Stats {
	seed, _ := strconv.ParseUint(os.Getenv("VX_SEED"), 10, 64)
	return &Stats{Property: property, Part: part, Rule: rule, Seed: seed, Labels: map[string]int{}, KnownHits: map[string]int{},
		ntSet: map[string]bool{}, start: time.Now(), lblSeen: map[string]bool{}, Extra: map[string]int{}}
}

type Sample struct {
	Labels   []string        `json:"labels,omitempty"`
	Scenario json.RawMessage `json:"scenario"`
}

func hashOf(b []byte) string {
	h := sha256.Sum256(b)
	return hex.EncodeToString(h[:8])
}

// TB is the subset of rapid.T / testing.T used here.
type TB interface {
	Fatalf(format string, args ...interface{})
	Logf(format string, args ...interface{})
}

// Judge records a verdict and fails the rapid case on an (unknown) violation or crash. Returns true when ok.
func (s *Stats) Judge(t TB, scn interface{}, v Verdict) {
	b, _ := json.Marshal(scn)
	if d := os.Getenv("VX_DUMP"); d != "" { // development aid: every judged scenario and its verdict, one per line
		if f, err := os.OpenFile(d, os.O_APPEND|os.O_CREATE|os.O_WRONLY, 0o644); err == nil {
			fmt.Fprintf(f, "%s\t%s\t%s\n", v.Status, v.Sig, b)
			f.Close()
		}
	}
	s.mu.Lock()
	if s.failing {
		s.ShrinkRuns++
	} else {
		s.Evaluations++
	}
	if v.LagMs > s.MaxLagMs {
		s.MaxLagMs = v.LagMs
	}
	s.Unconstrained += v.Unconstrained
	for _, l := range v.Labels {
		s.Labels[l]++
	}
	if v.Status == "ok" && v.Nontrivial {
		s.Extra["nontrivial_evaluations"]++
	}
	if v.Status == "ok" && v.Nontrivial && (!s.fuzz || len(s.ntSet) < 20000) {
		h := hashOf(b)
		if !s.ntSet[h] {
			s.ntSet[h] = true
			newLabel := false
			for _, l := range v.Labels {
				if !s.lblSeen[l] {
					newLabel = true
				}
			}
			if len(s.Samples) < 3 || (newLabel && len(s.Samples) < 12) {
				if len(b) < 6000 {
					s.Samples = append(s.Samples, Sample{Labels: v.Labels, Scenario: append([]byte{}, b...)})
				}
			}
			for _, l := range v.Labels {
				s.lblSeen[l] = true
			}
		}
	}
	switch v.Status {
	case "ok":
		due := s.fuzz && time.Since(s.lastFlush) > 3*time.Second
		if due {
			s.lastFlush = time.Now()
		}
		s.mu.Unlock()
		if due {
			s.Flush()
		}
		return
	case "inconclusive":
		s.Inconclusive++
		if len(s.InconcWhy) < 5 {
			s.InconcWhy = append(s.InconcWhy, tail(v.Clause+": "+v.Detail, 1500))
		}
		s.mu.Unlock()
		return
	}
	// violation or crash
	if IsKnown(s.Property, v.Sig) {
		s.KnownHits[v.Sig]++
		s.mu.Unlock()
		return
	}
	s.failing = true
	s.Failures++
	vv := v
	s.FailVerdict = &vv
	if dir := os.Getenv("VX_FAILDIR"); dir != "" {
		p := fmt.Sprintf("%s/%s-%s-seed%d.json", dir, s.Property, s.Part, s.Seed)
		if s.fuzz {
			p = fmt.Sprintf("%s/%s-%s-fuzz-pid%d.json", dir, s.Property, s.Part, os.Getpid())
		}
		_ = os.WriteFile(p, b, 0o644)
		s.FailFile = p
	}
	s.mu.Unlock()
	s.Flush()
	t.Fatalf("%s %s [%s] sig=%q: %s", s.Property, v.Status, v.Clause, v.Sig, tail(v.Detail, 3000))
}

// Count adds to a named extra counter.
func (s *Stats) Count(name string, n int) {
	s.mu.Lock()
	s.Extra[name] += n
	s.mu.Unlock()
}

// Flush writes the statistics file (VX_STATS).
func (s *Stats) Flush() {
	s.mu.Lock()
	defer s.mu.Unlock()
	s.Nontrivial = s.Nontrivial[:0]
	for h := range s.ntSet {
		s.Nontrivial = append(s.Nontrivial, h)
	}
	sort.Strings(s.Nontrivial)
	s.WallS = time.Since(s.start).Seconds()
	p := os.Getenv("VX_STATS")
	if p == "" {
		return
	}
	b, _ := json.MarshalIndent(s, "", " ")
	if s.fuzz {
		tmp := fmt.Sprintf("%s.%s.pid%d.tmp", p, s.Part, os.Getpid())
		if os.WriteFile(tmp, b, 0o644) == nil {
			_ = os.Rename(tmp, fmt.Sprintf("%s.%s.pid%d.json", p, s.Part, os.Getpid()))
		}
		return
	}
	_ = os.WriteFile(p+"."+s.Part+".json", b, 0o644)
}

// ReplayMain handles "replay" mode for a test binary: run scenario files through the named executor and print
// verdicts. Used by TestReplay in each package.
func ReplayFiles(t *testing.T, r *Runner, prop string, files []string) {
	for _, f := range files {
		b, err := os.ReadFile(f)
		if err != nil {
			t.Fatalf("read %s: %v", f, err)
		}
		v := r.RunJSON(bytes.TrimSpace(b))
		vb, _ := json.Marshal(v)
		fmt.Printf("VX-REPLAY %s %s\n", f, vb)
	}
}

// Debugf appends a line to the file named by VX_DEBUG (development aid; silent otherwise).
func Debugf(format string, a ...interface{}) {
	p := os.Getenv("VX_DEBUG")
	if p == "" {
		return
	}
	f, err := os.OpenFile(p, os.O_APPEND|os.O_CREATE|os.O_WRONLY, 0o644)
	if err != nil {
		return
	}
	fmt.Fprintf(f, "%s "+format+"\n", append([]interface{}{time.Now().Format("15:04:05.000")}, a...)...)
	f.Close()
}
