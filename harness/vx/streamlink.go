package vx

import (
	"encoding/binary"
	"io"
	"net"
	"os"
	"sync"
	"time"

	"github.com/ansible/receptor/pkg/netceptor"
)

// chunkPipe is one direction of an in-memory byte stream whose reader hands out the bytes in pieces of drawn sizes
// (cycled), i.e. it fragments and coalesces independently of the writer's boundaries.
type chunkPipe struct {
	mu     sync.Mutex
	cond   *sync.Cond
	buf    []byte
	closed bool
	chunks []int
	pos    int
	rdl    time.Time
	Bytes  int64
	Splits int64 // reads that ended inside what the writer wrote as one piece
}

func newChunkPipe(chunks []int) *chunkPipe {
	p := &chunkPipe{chunks: chunks}
	p.cond = sync.NewCond(&p.mu)
	return p
}

func (p *chunkPipe) write(b []byte) (int, error) {
	p.mu.Lock()
	defer p.mu.Unlock()
	if p.closed {
		return 0, io.ErrClosedPipe
	}
	p.buf = append(p.buf, b...)
	p.Bytes += int64(len(b))
	p.cond.Broadcast()
	return len(b), nil
}

type timeoutErr struct{}

func (timeoutErr) Error() string   { return "i/o timeout" }
func (timeoutErr) Timeout() bool   { return true }
func (timeoutErr) Temporary() bool { return true }

func (p *chunkPipe) read(b []byte) (int, error) {
	p.mu.Lock()
	defer p.mu.Unlock()
	for len(p.buf) == 0 {
		if p.closed {
			return 0, io.EOF
		}
		if !p.rdl.IsZero() {
			d := time.Until(p.rdl)
			if d <= 0 {
				return 0, timeoutErr{}
			}
			t := time.AfterFunc(d, func() { p.mu.Lock(); p.cond.Broadcast(); p.mu.Unlock() })
			p.cond.Wait()
			t.Stop()
			continue
		}
		p.cond.Wait()
	}
	n := len(b)
	if len(p.chunks) > 0 {
		c := p.chunks[p.pos%len(p.chunks)]
		p.pos++
		if c < 1 {
			c = 1
		}
		if c < n {
			n = c
		}
	}
	if n > len(p.buf) {
		n = len(p.buf)
	}
	copy(b, p.buf[:n])
	p.buf = p.buf[n:]
	if len(p.buf) > 0 {
		p.Splits++
	}
	return n, nil
}

func (p *chunkPipe) close() {
	p.mu.Lock()
	p.closed = true
	p.cond.Broadcast()
	p.mu.Unlock()
}

// ChunkConn is one end of a bidirectional chunking byte stream; it implements net.Conn.
type ChunkConn struct {
	in, out *chunkPipe
	once    sync.Once
	done    chan struct{}
	peer    *ChunkConn
}

// NewChunkConnPair creates a connected pair; chunksAB / chunksBA are the read-piece sizes for bytes a->b and b->a.
func NewChunkConnPair(chunksAB, chunksBA []int) (*ChunkConn, *ChunkConn) {
	ab, ba := newChunkPipe(chunksAB), newChunkPipe(chunksBA)
	a := &ChunkConn{in: ba, out: ab, done: make(chan struct{})}
	b := &ChunkConn{in: ab, out: ba, done: make(chan struct{})}
	a.peer, b.peer = b, a
	return a, b
}

func (c *ChunkConn) Read(b []byte) (int, error)  { return c.in.read(b) }
func (c *ChunkConn) Write(b []byte) (int, error) { return c.out.write(b) }
func (c *ChunkConn) Close() error {
	c.once.Do(func() { close(c.done); c.in.close(); c.out.close() })
	return nil
}
func (c *ChunkConn) Done() <-chan struct{}            { return c.done }
func (c *ChunkConn) LocalAddr() net.Addr              { return chunkAddr{} }
func (c *ChunkConn) RemoteAddr() net.Addr             { return chunkAddr{} }
func (c *ChunkConn) SetDeadline(t time.Time) error    { return c.SetReadDeadline(t) }
func (c *ChunkConn) SetWriteDeadline(time.Time) error { return nil }
func (c *ChunkConn) SetReadDeadline(t time.Time) error {
	c.in.mu.Lock()
	c.in.rdl = t
	c.in.cond.Broadcast()
	c.in.mu.Unlock()
	return nil
}

// SplitReads reports how many reads of this end stopped inside buffered data (fragmentation actually happened).
func (c *ChunkConn) SplitReads() int64 {
	c.in.mu.Lock()
	defer c.in.mu.Unlock()
	return c.in.Splits
}

type chunkAddr struct{}

func (chunkAddr) Network() string { return "chunk" }
func (chunkAddr) String() string  { return "chunk" }

var _ = os.ErrDeadlineExceeded

// StreamBackend is receptor's ExternalBackend fed with chunking streams: the framing layer (MessageConnFromNetConn)
// is receptor's own, exactly as used for TCP.
type StreamBackend struct {
	EB *netceptor.ExternalBackend
}

func NewStreamBackend() *StreamBackend {
	eb, _ := netceptor.NewExternalBackend()
	return &StreamBackend{EB: eb}
}

// Attach hands a stream to the node as a new backend session (asynchronously: NewConnection blocks until taken).
func (s *StreamBackend) Attach(c net.Conn) {
	go func() {
		defer func() { _ = recover() }() // backend context gone
		s.EB.NewConnection(netceptor.MessageConnFromNetConn(c), true)
	}()
}

// Frame prepends receptor's stream framing (little-endian uint16 length) - used by scripted peers on streams.
func Frame(b []byte) []byte {
	out := make([]byte, 2+len(b))
	binary.LittleEndian.PutUint16(out, uint16(len(b)))
	copy(out[2:], b)
	return out
}
