#!/usr/bin/env python3
"""Writes MANIFEST.json from checkcfg.py + manifest_meta.py (keeps the two in step)."""
import json, os, sys
sys.path.insert(0, os.path.dirname(os.path.abspath(__file__)))
from checkcfg import PROPS
from manifest_meta import META, NOT_APPLICABLE, HOOK_COMMITS

checks = []
for pid in sorted(PROPS):
    m = META[pid]
    checks.append(dict(
        property_id=pid,
        quick_cmd=f"./check {pid} quick",
        thorough_cmd=f"./check {pid} thorough",
        evidence_file=f"/verif/evidence/{pid}.json",
        replay_cmd_template=f"./check {pid} quick --replay {{path}}",
        engine="vx",
        level_claimed=dict(category=PROPS[pid].get("level", "exploration"), text=m["text"], design_ref=m["design_ref"]),
        level_note=m["note"],
        technique=PROPS[pid]["technique"],
    ))
man = dict(
    version=1,
    setup_cmd="./setup.sh",
    hooks=dict(guard="verif", enable="go build/test -tags verif (the harness module replaces github.com/ansible/receptor with /repo)",
               baseline_off_cmd="cd /repo && go test -mod=mod -vet=off -count=1 -timeout 25m ./...",
               source_commits=HOOK_COMMITS, add_only=True),
    engines=[dict(name="vx", path="/verif/harness", serves_properties=sorted(PROPS),
                  kind_free_text="Go harness module: rapid (pgregory.net/rapid v1.3.0) drivers generate whole scenarios as one shrinkable value; "
                                 "an executor (child process of the same test binary, or in-process for pure functions) runs them against the real "
                                 "receptor packages and judges them with a reference model / round-trip / invariant; ./check (python3) builds, "
                                 "shards by seed, confirms failures by replay, merges evidence")],
    checks=checks,
    not_applicable=NOT_APPLICABLE,
    notes="VERIF_SEED selects the rapid seeds of all shards (seed_k = 1 + (VERIF_SEED*1000003 + k) mod 2^62). Exit 2 = inconclusive.",
)
json.dump(man, open(os.path.join(os.path.dirname(os.path.abspath(__file__)), "MANIFEST.json"), "w"), indent=1)
print("MANIFEST.json written:", len(checks), "checks,", len(NOT_APPLICABLE), "not applicable")
