#!/bin/sh
# Offline setup: seed go.sum and warm the build cache for the harness packages (everything comes from disk).
set -e
export GOFLAGS=-mod=mod GOPROXY=off GOSUMDB=off GOTOOLCHAIN=local
cd "$(dirname "$0")/harness"
[ -f go.sum ] || cp /repo/go.sum go.sum
mkdir -p ../.build
for p in netprops workprops; do
  if ls ./$p/*.go >/dev/null 2>&1; then
    go test -c -tags verif -o ../.build/$p.test ./$p
  fi
done
echo setup ok
