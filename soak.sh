#!/bin/sh
# usage: soak.sh <seed> [ids...]   runs the quick tier of every (or the given) property at VERIF_SEED=<seed>; prints one line per check
seed=$1; shift
ids="$@"
[ -z "$ids" ] && ids="C01 C02 C03 C04 C05 C06 C07 C08 C09 C10 C11 C12 C13 C14 C15 C16 C17 C18 C19 C20"
for p in $ids; do
  t0=$(date +%s)
  VERIF_SEED=$seed VERIF_NO_EVIDENCE=1 ./check $p quick > soak-$seed-$p.log 2>&1
  rc=$?
  echo "seed=$seed $p rc=$rc $(( $(date +%s) - t0 ))s $(grep -E '^VIOLATION|^INCONCLUSIVE' soak-$seed-$p.log | head -2 | cut -c1-200)"
done
